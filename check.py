#!/usr/bin/env python3
"""check.py <property id> <quick|thorough>

Rebuilds the simulator against /repo's current working tree (make, dependency-tracked), runs the seeded batch of
simulated executions for one property on all cores, confirms every candidate violation by replaying its
minimised replay file in a fresh process, matches confirmed violations against known_findings.json and writes
evidence/<id>.json.

Exit codes: 0 property held on everything explored (known findings are printed as KNOWN-FINDING lines);
            1 at least one unlisted violation (VIOLATION property=<id> replay=<path>);
            2 engine error (build failure, nondeterminism, worker crash) and no confirmed violation: a broken check, never a violation.
              (A candidate that does not reproduce in a fresh process is never printed as a VIOLATION; if other violations of the
              same batch were confirmed by their fresh-process replays, those stand and the exit code is 1.)
Environment: VERIF_SEED (default 20260929), VERIF_TIER (overrides the tier argument), VERIF_JOBS (default 16)."""
import json, os, re, subprocess, sys, time, glob, struct

ROOT = os.path.dirname(os.path.abspath(__file__))
os.chdir(ROOT)

# runs per tier; "build" = which binary decides the property
CONFIG = {
    'C01': dict(build='asan', quick=120000, thorough=4000000, level='exploration', mode='hist'),
    'C02': dict(build='asan', quick=40000, thorough=4000000, level='exploration', mode='hist'),
    'C03': dict(build='asan', quick=30000, thorough=3000000, level='exploration', mode='hist'),
    'C05': dict(build='asan', quick=40000, thorough=4000000, level='exploration', mode='hist'),
    'C06': dict(build='asan', quick=20000, thorough=2000000, level='exploration', mode='hist'),
    'C07': dict(build='asan', quick=20000, thorough=400000, level='exploration', mode='hist+krylov'),
    'C14': dict(build='asan', quick=220, thorough=4400, level='fault_enumeration', mode='fault'),
    'C16': dict(build='asan', quick=150000, thorough=3000000, level='exploration', mode='svd'),
    'C20': dict(build='tsan', quick=40000, thorough=2000000, level='exploration', mode='sched'),
}
TIME_CAP = {'quick': 150.0, 'thorough': 1500.0}  # wall-clock safety cap per batch (seconds), enforced by the workers

RULES = {
    'hist': "one case = one seeded single-task API history (world + script of init/init(v)/compute/accessor/rejected/faulted calls) executed on real Spectra code "
            "through the operator seam; non-trivial = at least one compute() returned and was checked; distinct = distinct hashes of the sequence of "
            "(op kind, outcome class in {returned, Successful, NotConverging, threw-invalid, threw-fault, threw-other}) plus solver family",
    'hist+krylov': "in-solver: one case = one seeded API history with the checkpoint observer attached (every init/factorize/compress/expand_basis/restart checkpoint is "
                   "checked); direct: one case = one seeded script of init/extend/restart(shifts) over a bare Arnoldi or Lanczos object; non-trivial = at least one "
                   "checkpoint was checked; distinct = distinct hashes of the checkpoint-kind sequence",
    'fault': "one case = one faulted execution: the operator throws at application k of init()/compute()/eigenvectors(), followed by the recovery run; for every world ALL k are "
             "enumerated (A- and B-operator, persistent-solver and fresh-solver pass) plus sampled fault pairs; non-trivial = the fault fired; distinct = distinct "
             "(world, operator, call, k[, second fault]) positions that fired",
    'svd': "one case = one seeded history of PartialSVDSolver compute(maxit,tol)/accessor calls; non-trivial = at least one compute() returned; distinct = distinct hashes of "
           "(op kind, convergence class) sequences x shape x storage",
    'sched': "one case = one seeded schedule of 2..16 simulated caller threads (real threads, one runnable at a time, hand-off invisible to TSan) each driving its own solver; "
             "non-trivial = at least one context switch; distinct = distinct hashes of the executed (task, event kind) interleaving",
}

def sh(cmd, **kw):
    return subprocess.run(cmd, shell=isinstance(cmd, str), stdout=subprocess.PIPE, stderr=subprocess.STDOUT, text=True, errors='replace', **kw)

def load_known():
    p = os.path.join(ROOT, 'known_findings.json')
    if not os.path.exists(p):
        return {'findings': [], 'fixed': []}
    return json.load(open(p))

def matches(finding, prop, feat):
    """A finding's signature is a set of predicates over the features of the minimised replay."""
    sig = finding.get('signature', {})
    if prop not in [finding.get('property')] + finding.get('also', []):
        return False
    for key, want in sig.items():
        if key == 'clauses':
            if feat.get('class', '').split(':', 1)[-1] not in want:
                return False
        elif key == 'families':
            if feat.get('family') not in want:
                return False
        elif key == 'mclass':
            if feat.get('mclass') not in want:
                return False
        elif key == 'pattern_regex':
            if not re.search(want, feat.get('pattern', '')):
                return False
        elif key == 'min_scale_log10':
            if feat.get('scale_log10', 0) < want:
                return False
        elif key == 'start_vector_class':
            if feat.get('start_vector_class') not in want:
                return False
        elif key == 'min_restarts_since_init':
            if feat.get('restarts_since_init', 0) < want:
                return False
        elif key == 'min_expands':
            if feat.get('expands', 0) < want:
                return False
        elif key == 'max_scale_log10':
            if feat.get('scale_log10', 0) > want:
                return False
        elif key == 'scalar':
            if feat.get('scalar') not in want:
                return False
        else:
            return False  # unknown predicate: never matches
    return True

def main():
    if len(sys.argv) < 3:
        print(__doc__)
        return 2
    prop = sys.argv[1]
    tier = os.environ.get('VERIF_TIER') or sys.argv[2]
    if tier not in ('quick', 'thorough') or prop not in CONFIG:
        print('usage: check.py <%s> <quick|thorough>' % '|'.join(CONFIG))
        return 2
    seed = int(os.environ.get('VERIF_SEED', '20260929'))
    jobs = int(os.environ.get('VERIF_JOBS', '16'))
    cfg = CONFIG[prop]
    runs = int(os.environ.get('VERIF_RUNS', cfg[tier]))
    t0 = time.time()
    # ---- build against the current working tree of /repo ----
    # VERIF_REPO / VERIF_BUILD: run the same check against a scratch worktree (mutation testing); defaults are /repo and build/
    repo = os.environ.get('VERIF_REPO', '/repo')
    bdir = os.environ.get('VERIF_BUILD', 'build')
    b = sh(['make', '-C', ROOT, '-j%d' % jobs, 'REPO=' + repo, 'BUILD=' + bdir, '%s/%s/sim' % (bdir, cfg['build'])])
    if b.returncode != 0:
        print(b.stdout[-4000:])
        print('ENGINE-ERROR build failed')
        return 2
    build_s = time.time() - t0
    sim = os.path.join(ROOT, bdir, cfg['build'], 'sim')
    rdir = os.path.join(ROOT, 'replays')
    tmp = os.path.join(ROOT, bdir, 'run', prop)
    os.makedirs(rdir, exist_ok=True)
    os.makedirs(tmp, exist_ok=True)
    for f in glob.glob(os.path.join(tmp, '*')):
        os.remove(f)
    # ---- batch ----
    procs = []
    nworkers = min(jobs, max(1, runs))
    env = dict(os.environ)
    # batch workers do not symbolize sanitizer reports (slow); the fresh-process replay of a violation does
    env.setdefault('TSAN_OPTIONS', 'symbolize=0')
    for w in range(nworkers):
        cmd = [sim, '--prop', prop, '--tier', tier, '--seed', str(seed), '--runs', str(runs), '--worker', str(w), '--nworkers', str(nworkers),
               '--seconds', str(TIME_CAP[tier]), '--shapes', os.path.join(tmp, 'shapes.%d' % w), '--replay-dir', rdir, '--selfcheck', '50', '--max-reports', '3']
        procs.append(subprocess.Popen(cmd, stdout=subprocess.PIPE, stderr=open(os.path.join(tmp, 'stderr.%d' % w), 'w'), text=True, errors='replace', cwd=ROOT, env=env))
    summaries, candidates, engine_errors = [], [], []
    engine_errors_early = engine_errors
    deadline = time.time() + TIME_CAP[tier] * 4 + 300  # a hung worker is an engine error, not an endless check
    for w, p in enumerate(procs):
        try:
            out, _ = p.communicate(timeout=max(5.0, deadline - time.time()))
        except subprocess.TimeoutExpired:
            p.kill()
            out, _ = p.communicate()
            engine_errors_early.append({'msg': 'worker %d hung and was killed' % w})
        got_summary = False
        for line in out.splitlines():
            try:
                j = json.loads(line)
            except Exception:
                continue
            t = j.get('type')
            if t == 'summary':
                summaries.append(j)
                got_summary = True
            elif t == 'violation':
                candidates.append(j)
            elif t == 'engine_error':
                engine_errors.append(j)
        if not got_summary:
            tail = open(os.path.join(tmp, 'stderr.%d' % w)).read()[-1500:]
            engine_errors.append({'msg': 'worker %d died (exit %s) without a summary: %s' % (w, p.returncode, tail)})
    # ---- aggregate ----
    cnt, mx = {}, {}
    executed = evaluations = nontrivial = 0
    samples = []
    for s in summaries:
        executed += s['executed']
        evaluations += s.get('evaluations', s['executed'])
        nontrivial += s['nontrivial']
        for k, v in s['stats']['cnt'].items():
            cnt[k] = cnt.get(k, 0) + v
        for k, v in s['stats']['max'].items():
            if isinstance(v, (int, float)):
                mx[k] = max(mx.get(k, 0.0), v)
        samples += s.get('samples', [])
    shapes = set()
    for f in glob.glob(os.path.join(tmp, 'shapes.*')):
        data = open(f, 'rb').read()
        shapes.update(struct.unpack('<%dQ' % (len(data) // 8), data))
    # ---- confirm candidates in a fresh process, then classify ----
    known = load_known()
    violations, known_hits = [], {}
    for c in candidates:
        r = sh([sim, '--replay', c['replay']])
        if r.returncode != 1 or 'REPRODUCED' not in r.stdout or 'NOT-REPRODUCED' in r.stdout:
            engine_errors.append({'msg': 'replay of %s did not reproduce class %s in a fresh process (exit %d)' % (c['replay'], c['class'], r.returncode)})
            continue
        hit = None
        for f in known.get('findings', []):
            if matches(f, c['prop'], c['features']):
                hit = f
                break
        if hit:
            known_hits.setdefault(hit['id'], {'finding': hit, 'count': 0, 'example': c['replay']})['count'] += 1
        else:
            violations.append(c)
    # ---- committed examples of the known findings: do they still fail? ----
    for f in known.get('findings', []):
        if prop not in [f.get('property')] + f.get('also', []) or not f.get('example_replay'):
            continue
        ex = os.path.join(ROOT, f['example_replay'])
        r = sh([sim, '--replay', ex])
        if r.returncode == 1 and 'REPRODUCED' in r.stdout and 'NOT-REPRODUCED' not in r.stdout:
            known_hits.setdefault(f['id'], {'finding': f, 'count': 0, 'example': f['example_replay']})
    wall = time.time() - t0
    # ---- report ----
    for kid, h in sorted(known_hits.items()):
        print('KNOWN-FINDING: property=%s %s [%s; seen %d time(s) in this batch; example %s]' % (prop, h['finding']['what_fails'], kid, h['count'], h['example']))
    for v in violations:
        print('VIOLATION property=%s replay=%s' % (prop, v['replay']))
        print('  class=%s index=%s detail=%s' % (v['class'], v['index'], v.get('detail', '')[:300]))
    for e in engine_errors[:10]:
        print('ENGINE-ERROR %s' % e.get('msg'))
    batch_s = max(wall - build_s, 1e-9)
    faults = {k: v for k, v in cnt.items() if k.startswith('fault.')}
    oos = {k: v for k, v in cnt.items() if k.startswith('oos.')}
    calib = {}
    try:
        calib = json.load(open(os.path.join(ROOT, 'sim', 'calib.json'))).get('constants', {})
    except Exception:
        pass
    evidence = {
        'property_id': prop, 'tier': tier, 'seed': seed, 'level': cfg['level'], 'wall_s': round(wall, 2),
        'violations': len(violations),
        'coverage': {
            'evaluations': int(evaluations), 'distinct_nontrivial': int(len(shapes)), 'rule': RULES[cfg['mode']],
            'samples': samples[:3] if samples else [{'note': 'no sample collected'}],
            'simulated_runs': executed, 'nontrivial_runs': nontrivial, 'runs_per_hour': int(executed / batch_s * 3600),
            'seeds': '%d run seeds derived from VERIF_SEED=%d (run_seed = splitmix64(seed ^ golden*(index+1)))' % (executed, seed),
            'simulated_time': {'events': cnt.get('events', 0), 'operator_applications_A': cnt.get('applications.A', 0), 'operator_applications_B': cnt.get('applications.B', 0),
                               'checkpoint_events': {k.split('.', 1)[1]: v for k, v in cnt.items() if k.startswith('checkpoint.')},
                               'yields': cnt.get('yields', 0), 'context_switches': cnt.get('switches', 0)},
            'faults_fired': faults, 'out_of_scope_observations': oos,
            'counters': {k: v for k, v in cnt.items() if not k.startswith(('fault.', 'oos.', 'checkpoint.'))},
            'max_observed_ratios': mx,
            'calibration_constants_in_force': calib,
            'known_findings_hit': {k: v['count'] for k, v in known_hits.items()},
            'determinism_gate': {'reexecuted_in_process': cnt.get('selfcheck.reexecuted', 0), 'candidates_replayed_in_fresh_process': len(candidates),
                                 'engine_errors': len(engine_errors)},
            'components': {'real_code': ['all Spectra headers under /repo/include (solvers, Arnoldi/Lanczos, QR/eigen helpers, built-in MatOp wrappers)', 'Eigen 3.4', 'SimpleRandom'],
                           'stubs': [], 'harness_only': ['SimOp pass-through operator seam', 'seeded scheduler', 'fault plan', 'checkpoint observers (via the guarded hook)']},
            'exhaustive': bool(cfg['level'] == 'fault_enumeration' and cnt.get('worlds.strided', 0) == 0 and cnt.get('worlds.exhaustive', 0) > 0),
            'build': cfg['build'], 'build_s': round(build_s, 1), 'workers': nworkers,
        },
        'assumptions': [
            'inputs are workload, not the deciding dimension: matrices, start vectors and shifts are sampled from the named classes in DESIGN.md section 2.7',
            'numeric clauses use norms that are rigorous upper bounds and rounding-level constants calibrated on the pinned tree (sim/calib.json)',
            'a clean batch is evidence over the sampled histories/faults/schedules, not a proof',
        ],
    }
    os.makedirs(os.path.join(ROOT, 'evidence'), exist_ok=True)
    json.dump(evidence, open(os.path.join(ROOT, 'evidence', prop + '.json'), 'w'), indent=1)
    print('%s %s: %d runs (%d executions, %d distinct non-trivial cases) in %.1fs (build %.1fs); violations=%d known=%d engine_errors=%d'
          % (prop, tier, executed, evaluations, len(shapes), wall, build_s, len(violations), len(known_hits), len(engine_errors)))
    # a violation that was confirmed by replaying its file in a fresh process stands on its own: exit 1. Engine errors
    # (a candidate that did not reproduce, a nondeterministic re-execution, a dead worker) make the check exit 2 only
    # when nothing was confirmed - e.g. hidden process-global state in the library makes SOME candidates of a batch
    # unrepeatable outside the process that produced them, while others replay exactly.
    if violations:
        return 1
    return 2 if engine_errors else 0

if __name__ == '__main__':
    sys.exit(main())
