#!/bin/bash
# tools/verify_seeded.sh <seeded-id>   confirms a seeded change: demo passes on the unmodified tree, fails with the patch,
# and the library's own test suite passes with the patch. Writes /verif/seeded/<id>/verify.txt
id=$1; d=/verif/seeded/$id; wt=/tmp/vs_$id
git -C /repo worktree remove --force $wt 2>/dev/null; rm -rf $wt
git -C /repo worktree add -q --detach $wt HEAD || exit 2
out=$d/verify.txt; : > $out
CXX="g++ -std=c++17 -O1"; RUNENV=""
if [[ $id == C20-* ]]; then CXX="clang++ -std=c++17 -O1 -g -fsanitize=thread"; RUNENV="TSAN_OPTIONS=exitcode=1"; fi
$CXX -I$wt/include -I/usr/include/eigen3 $d/demo.cpp -o $wt/demo_clean -lpthread 2>>$out
env $RUNENV $wt/demo_clean > $wt/demo_clean.out 2>&1; echo "demo on unmodified tree: exit $? ($(tail -1 $wt/demo_clean.out | cut -c1-100))" >> $out
git -C $wt apply $d/patch.diff || { echo "patch does not apply" >> $out; exit 2; }
$CXX -I$wt/include -I/usr/include/eigen3 $d/demo.cpp -o $wt/demo_mut -lpthread 2>>$out
env $RUNENV $wt/demo_mut > $wt/demo_mut.out 2>&1; echo "demo with the change: exit $? ($(grep -m1 -E 'FAIL|ThreadSanitizer' $wt/demo_mut.out | cut -c1-100))" >> $out
cmake -G Ninja -S $wt -B $wt/_build -DBUILD_TESTS=ON -DCMAKE_BUILD_TYPE=RelWithDebInfo -DCMAKE_CXX_FLAGS=-Wno-error > /dev/null 2>&1
nice -n 10 cmake --build $wt/_build -j${VS_JOBS:-6} > $wt/build.log 2>&1; echo "test build with the change: exit $?" >> $out
nice -n 10 ctest --test-dir $wt/_build -j${VS_JOBS:-6} --timeout 900 > $wt/ctest.log 2>&1; echo "ctest with the change: exit $? ($(grep -E 'tests passed|tests failed' $wt/ctest.log))" >> $out
git -C /repo worktree remove --force $wt; rm -rf $wt
cat $out
