#!/usr/bin/env python3
"""Determinism proof: every run index of a batch is executed several times, in different worker processes and at
different worker counts (so with different predecessors in the same process, different heap histories and different
addresses); the 64-bit event-log hash (which folds in every result bit) must be identical each time.
Usage: tools/determinism.py <prop> <runs> [build=asan] [seed]      exit 0 = deterministic, 2 = divergence"""
import os, subprocess, sys, json
ROOT = os.path.dirname(os.path.dirname(os.path.abspath(__file__)))
prop, runs = sys.argv[1], int(sys.argv[2])
build = sys.argv[3] if len(sys.argv) > 3 else 'asan'
seed = sys.argv[4] if len(sys.argv) > 4 else '424242'
sim = os.path.join(ROOT, 'build', build, 'sim')
tmp = os.path.join(ROOT, 'build', 'run', 'det_' + prop)
os.makedirs(tmp, exist_ok=True)
def batch(nworkers, tag):
    procs = []
    for w in range(nworkers):
        cmd = [sim, '--prop', prop, '--seed', seed, '--runs', str(runs), '--worker', str(w), '--nworkers', str(nworkers), '--no-shrink',
               '--hashes', os.path.join(tmp, '%s.%d' % (tag, w)), '--replay-dir', tmp]
        procs.append(subprocess.Popen(cmd, stdout=subprocess.DEVNULL, stderr=subprocess.DEVNULL, cwd=ROOT))
    for p in procs:
        p.wait()
    m = {}
    for w in range(nworkers):
        for line in open(os.path.join(tmp, '%s.%d' % (tag, w))):
            i, h = line.split()
            m[int(i)] = h
    return m
configs = [(16, 'a'), (5, 'b'), (1, 'c')] if runs <= 3000 else [(16, 'a'), (7, 'b'), (3, 'c')]
maps = [batch(n, t) for n, t in configs]
bad = [i for i in maps[0] if any(m.get(i) != maps[0][i] for m in maps[1:])]
print(json.dumps({'prop': prop, 'build': build, 'runs': len(maps[0]), 'worker_counts': [c[0] for c in configs], 'divergent_indices': bad[:20], 'divergent': len(bad)}))
sys.exit(2 if bad or len(maps[0]) == 0 else 0)
