#!/usr/bin/env python3
"""Re-runs the quick checks named in every seeded/<id>/meta.json against that change (tools/mutcheck.sh) and rewrites the
caught_by / missed_by entries; prints one line per (change, property). Usage: tools/regress_seeded.py [id ...]"""
import json, os, subprocess, sys, glob
ROOT = os.path.dirname(os.path.dirname(os.path.abspath(__file__)))
ids = sys.argv[1:] or sorted(os.path.basename(d) for d in glob.glob(os.path.join(ROOT, 'seeded', '*')) if os.path.isdir(d))
for sid in ids:
    d = os.path.join(ROOT, 'seeded', sid)
    meta = json.load(open(os.path.join(d, 'meta.json')))
    props = list(meta.get('caught_by', {}).keys()) + list(meta.get('missed_by', {}).keys())
    name = sid.lower().replace('-', '')
    subprocess.run([os.path.join(ROOT, 'tools', 'mutcheck.sh'), name, os.path.join(d, 'patch.diff')] + props, stdout=subprocess.DEVNULL, stderr=subprocess.DEVNULL)
    caught, missed = {}, {}
    for p in props:
        log = '/tmp/mc_%s_%s.log' % (name, p)
        last = open(log).read().strip().splitlines()[-1] if os.path.exists(log) else 'no log'
        viol = sum(1 for l in open(log) if l.startswith('VIOLATION')) if os.path.exists(log) else 0
        (caught if viol > 0 else missed)[p] = last
        print('%s %s %s :: %s' % (sid, p, 'CAUGHT' if viol > 0 else 'missed', last[:150]), flush=True)
    meta['caught_by'], meta['missed_by'] = caught, missed
    json.dump(meta, open(os.path.join(d, 'meta.json'), 'w'), indent=1)
