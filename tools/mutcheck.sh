#!/bin/bash
# tools/mutcheck.sh <name> <patch.diff | revert:<commit>> <prop> [<prop> ...]
# Runs the quick checks of the given properties against a scratch worktree of /repo with the change applied
# (the official procedure - git -C /repo apply, check, git checkout - is equivalent; this variant never touches /repo,
# works on a private copy of /verif so that /verif can be edited meanwhile, and several can run in parallel).
set -u
name=$1; change=$2; shift 2
wt=/tmp/mc_$name; bd=/tmp/mcb_$name; vc=/tmp/mcv_$name
git -C /repo worktree remove --force $wt 2>/dev/null; rm -rf $wt $bd $vc
git -C /repo worktree add -q --detach $wt HEAD || exit 2
if [[ $change == revert:* ]]; then
  git -C $wt revert --no-commit ${change#revert:} || { echo "revert failed"; exit 2; }
else
  git -C $wt apply $change || { echo "apply failed"; exit 2; }
fi
mkdir -p $vc && rsync -a --exclude build --exclude .git --exclude replays --exclude evidence /verif/ $vc/ && mkdir -p $vc/replays $vc/evidence
for p in "$@"; do
  VERIF_REPO=$wt VERIF_BUILD=$bd python3 $vc/check.py $p quick > /tmp/mc_${name}_$p.log 2>&1
  rc=$?
  echo "$name $p exit=$rc $(grep -c '^VIOLATION' /tmp/mc_${name}_$p.log) violation lines; $(tail -1 /tmp/mc_${name}_$p.log | cut -c1-160)"
  grep -m3 "class=" /tmp/mc_${name}_$p.log | cut -c1-260
done
git -C /repo worktree remove --force $wt; rm -rf $bd $vc
