# Builds the simulator against /repo's CURRENT working tree (header-only: every TU includes it;
# -MMD dependency files make any edit under /repo/include trigger the rebuild of what uses it).
REPO ?= /repo
BUILD ?= build
CXX := clang++
COMMON := -std=c++17 -I$(REPO)/include -I/usr/include/eigen3 -Isim/seam -Isim -DSPECTRA_VERIF_SIM \
          -include sim/core/eigen_config.h -MMD -MP -Wall -Wno-unused-function -Wno-unused-local-typedef \
          -Wno-deprecated-declarations -fno-omit-frame-pointer
ASAN_FLAGS := -O1 -g1 -fsanitize=address,undefined -fsanitize-recover=address -fno-sanitize=vptr
TSAN_FLAGS := -O1 -g1 -fsanitize=thread -DSIM_TSAN=1
PLAIN_FLAGS := -O2 -g1
# C20: the translation units that instantiate the library (and only those) additionally call back at every
# basic-block edge, so that the seeded scheduler can pre-empt a task anywhere inside Spectra/Eigen code
TSAN_LIB_EXTRA := -fsanitize-coverage=trace-pc-guard

CORE_SRC := $(wildcard sim/core/*.cpp) $(wildcard sim/oracle/*.cpp) $(wildcard sim/engine/*.cpp) sim/world/matgen.cpp sim/world/registry.cpp
FAM_SRC := $(wildcard sim/world/fam_*.cpp)
SRC := $(CORE_SRC) $(FAM_SRC) sim/main.cpp
# the scheduler hand-off must stay invisible to TSan: it is always compiled without instrumentation
UNINSTR := sim/core/sched.cpp

define VARIANT
$(1)_OBJ := $$(patsubst sim/%.cpp,$(BUILD)/$(1)/%.o,$$(SRC))
$(BUILD)/$(1)/%.o: sim/%.cpp
	@mkdir -p $$(dir $$@)
	$$(CXX) $$(COMMON) $$(if $$(filter $$<,$$(UNINSTR)),$$(PLAIN_FLAGS),$(2) $$(if $$(filter $$<,$$(FAM_SRC)),$(3))) -c $$< -o $$@
$(BUILD)/$(1)/sim: $$($(1)_OBJ)
	$$(CXX) $(2) $$^ -o $$@ -lpthread
-include $$($(1)_OBJ:.o=.d)
endef

$(eval $(call VARIANT,asan,$(ASAN_FLAGS)))
$(eval $(call VARIANT,tsan,$(TSAN_FLAGS),$(TSAN_LIB_EXTRA)))
$(eval $(call VARIANT,plain,$(PLAIN_FLAGS)))

.PHONY: all asan tsan plain clean
all: asan tsan plain
asan: $(BUILD)/asan/sim
tsan: $(BUILD)/tsan/sim
plain: $(BUILD)/plain/sim
clean:
	rm -rf $(BUILD)
