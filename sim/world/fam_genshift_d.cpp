#include "fam_std.h"
namespace sim {
static FamilyRegistration r1(F_GENRSHIFT, S_DOUBLE, &world_factory<WorldGenRShift<double>>);
static FamilyRegistration r2(F_GENCSHIFT, S_DOUBLE, &world_factory<WorldGenCShift<double>>);
}
