#include "fam_std.h"
namespace sim {
static FamilyRegistration r1(F_GEN, S_DOUBLE, &world_factory<WorldGen<double>>);
}
