#include "fam_geigs.h"
namespace sim {
static FamilyRegistration r1(F_GCHOL, S_DOUBLE, &world_factory_g<WorldGChol<double>>);
static FamilyRegistration r2(F_GREGINV, S_DOUBLE, &world_factory_g<WorldGRegInv<double>>);
}
