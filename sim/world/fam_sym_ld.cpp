#include "fam_std.h"
namespace sim {
static FamilyRegistration r1(F_SYM, S_LDOUBLE, &world_factory<WorldSym<long double>>);
static FamilyRegistration r2(F_SYMSHIFT, S_LDOUBLE, &world_factory<WorldSymShift<long double>>);
}
