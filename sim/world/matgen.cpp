#include "matgen.h"
#include <Eigen/Dense>
#include <algorithm>
#include <cmath>

namespace sim {

typedef long double ld;

static ld urand(Rng& r, ld lo = -1.0L, ld hi = 1.0L) { return lo + (hi - lo) * (ld) r.real01(); }

static RMatL rand_mat(Rng& r, long rows, long cols)
{
    RMatL M(rows, cols);
    for (long j = 0; j < cols; j++)
        for (long i = 0; i < rows; i++) M(i, j) = urand(r);
    return M;
}

static RMatL rand_orth(Rng& r, long n)
{
    RMatL M = rand_mat(r, n, n);
    Eigen::HouseholderQR<RMatL> qr(M);
    RMatL Q = qr.householderQ();
    return Q;
}

static MatL rand_unitary(Rng& r, long n)
{
    MatL M(n, n);
    for (long j = 0; j < n; j++)
        for (long i = 0; i < n; i++) M(i, j) = cld(urand(r), urand(r));
    Eigen::HouseholderQR<MatL> qr(M);
    MatL Q = qr.householderQ();
    return Q;
}

static void shuffle(Rng& r, RVecL& d)
{
    for (long i = d.size() - 1; i > 0; i--)
    {
        long j = (long) r.below((uint64_t) i + 1);
        std::swap(d[i], d[j]);
    }
}

// prescribed real spectra
static RVecL spectrum(Rng& r, int mclass, long n)
{
    RVecL d(n);
    switch (mclass)
    {
        case M_CLUSTERED:
        {
            // a few clusters, members of a cluster 1e-3 .. 1e-6 apart (relative to the spread)
            long nc = std::max<long>(2, n / 5);
            ld gap = std::pow(10.0L, urand(r, -6.0L, -3.0L));
            for (long i = 0; i < n; i++)
            {
                long c = i % nc;
                ld centre = (ld) (c + 1) * ((c % 2) ? -1.0L : 1.0L);
                d[i] = centre + gap * (ld) (i / nc);
            }
            break;
        }
        case M_GRADED:
        {
            ld decades = urand(r, 2.0L, 8.0L);
            for (long i = 0; i < n; i++)
            {
                ld t = n > 1 ? (ld) i / (ld) (n - 1) : 0.0L;
                d[i] = std::pow(10.0L, -decades * t) * (r.chance(0.3) ? -1.0L : 1.0L);
            }
            break;
        }
        case M_REPEATED:
        {
            long v = 0;
            for (long i = 0; i < n;)
            {
                long mult = 1 + (long) r.below(3);
                v++;
                ld val = (ld) v * ((v % 3 == 0) ? -1.0L : 1.0L);
                for (long k = 0; k < mult && i < n; k++, i++) d[i] = val;
            }
            break;
        }
        default:  // M_SEPARATED
            for (long i = 0; i < n; i++) d[i] = ((ld) (i + 1) + urand(r, -0.2L, 0.2L)) * (r.chance(0.4) ? -1.0L : 1.0L);
    }
    shuffle(r, d);
    return d;
}

static RMatL sym_from_spectrum(Rng& r, const RVecL& d)
{
    const long n = d.size();
    RMatL Q = rand_orth(r, n);
    RMatL A = Q * d.asDiagonal() * Q.transpose();
    A = ((A + A.transpose()) * 0.5L).eval();
    return A;
}

// level 0: the default density (about 5 off-diagonal entries per row at n = 40); level k > 0: about k per row. Sparse
// direct solvers (elimination-tree post-ordering, supernode relaxation) only take visibly different paths on patterns
// that sparse
static RMatL sym_sparse(Rng& r, long n, int level = 0)
{
    RMatL A = RMatL::Zero(n, n);
    const double dens = level > 0 ? std::min(1.0, (double) level / (double) n) : std::min(1.0, 3.0 / (double) n + 0.05);
    for (long j = 0; j < n; j++)
        for (long i = j + 1; i < n; i++)
            if (r.chance(dens)) A(i, j) = A(j, i) = urand(r);
    for (long i = 0; i < n; i++) A(i, i) = urand(r, -2.0L, 2.0L);
    return A;
}

static RMatL gen_sparse(Rng& r, long n)
{
    RMatL A = RMatL::Zero(n, n);
    const double dens = std::min(1.0, 3.0 / (double) n + 0.05);
    for (long j = 0; j < n; j++)
        for (long i = 0; i < n; i++)
            if (i != j && r.chance(dens)) A(i, j) = urand(r);
    for (long i = 0; i < n; i++) A(i, i) = urand(r, -2.0L, 2.0L);
    return A;
}

static RMatL sym_matrix(Rng& r, const WorldSpec& w, long n, int mclass)
{
    switch (mclass)
    {
        case M_SEPARATED:
        case M_CLUSTERED:
        case M_GRADED:
        case M_REPEATED:
            return sym_from_spectrum(r, spectrum(r, mclass, n));
        case M_SPARSEPAT:
            return sym_sparse(r, n, w.rank);
        case M_BLOCKDIAG:
        {
            long nb = std::min<long>(std::max<long>(w.nblock, 1), n - 1);
            RMatL A = RMatL::Zero(n, n);
            RMatL A1 = rand_mat(r, nb, nb), A2 = rand_mat(r, n - nb, n - nb);
            A.topLeftCorner(nb, nb) = (A1 + A1.transpose()) * 0.5L;
            A.bottomRightCorner(n - nb, n - nb) = (A2 + A2.transpose()) * 0.5L;
            return A;
        }
        case M_LOWRANK:
        {
            long rk = std::min<long>(std::max<long>(w.rank, 1), n);
            RMatL Q = rand_orth(r, n);
            RVecL d = RVecL::Zero(n);
            for (long i = 0; i < rk; i++) d[i] = ((ld) (i + 1) + urand(r, -0.2L, 0.2L)) * (r.chance(0.4) ? -1.0L : 1.0L);
            RMatL A = Q * d.asDiagonal() * Q.transpose();
            return ((A + A.transpose()) * 0.5L).eval();
        }
        default:
        {
            RMatL R = rand_mat(r, n, n);
            return ((R + R.transpose()) * 0.5L).eval();
        }
    }
}

static RMatL gen_matrix(Rng& r, const WorldSpec& w, long n, int mclass)
{
    switch (mclass)
    {
        case M_NORMAL:
        {
            RMatL D = RMatL::Zero(n, n);
            for (long i = 0; i < n;)
            {
                if (i + 1 < n && r.chance(0.6))
                {
                    ld a = urand(r, -2.0L, 2.0L), b = urand(r, 0.2L, 2.0L);
                    D(i, i) = a; D(i + 1, i + 1) = a; D(i, i + 1) = b; D(i + 1, i) = -b;
                    i += 2;
                }
                else
                {
                    D(i, i) = urand(r, -2.0L, 2.0L) + (ld) i * 0.01L;
                    i++;
                }
            }
            RMatL Q = rand_orth(r, n);
            return (Q * D * Q.transpose()).eval();
        }
        case M_TRIANGULAR:
        {
            RMatL T = RMatL::Zero(n, n);
            for (long j = 0; j < n; j++)
            {
                for (long i = 0; i < j; i++) T(i, j) = 0.3L * urand(r);
                T(j, j) = ((ld) (j + 1) + urand(r, -0.2L, 0.2L)) * (r.chance(0.4) ? -1.0L : 1.0L);
            }
            return T;
        }
        case M_SEPARATED:
        case M_CLUSTERED:
        case M_GRADED:
        case M_REPEATED:
        {
            // X D X^{-1}, X moderately conditioned
            RVecL d = spectrum(r, mclass, n);
            RMatL Q1 = rand_orth(r, n), Q2 = rand_orth(r, n);
            RVecL s(n);
            for (long i = 0; i < n; i++) s[i] = 1.0L + 4.0L * (ld) i / (ld) std::max<long>(1, n - 1);
            RMatL X = Q1 * s.asDiagonal() * Q2.transpose();
            RMatL Xi = Q2 * s.cwiseInverse().asDiagonal() * Q1.transpose();
            return (X * d.asDiagonal() * Xi).eval();
        }
        case M_SPARSEPAT:
            return gen_sparse(r, n);
        case M_BLOCKDIAG:
        {
            long nb = std::min<long>(std::max<long>(w.nblock, 1), n - 1);
            RMatL A = RMatL::Zero(n, n);
            A.topLeftCorner(nb, nb) = rand_mat(r, nb, nb);
            A.bottomRightCorner(n - nb, n - nb) = rand_mat(r, n - nb, n - nb);
            return A;
        }
        case M_LOWRANK:
        {
            long rk = std::min<long>(std::max<long>(w.rank, 1), n);
            RMatL U = rand_mat(r, n, rk), W = rand_mat(r, n, rk);
            return (U * W.transpose()).eval();
        }
        default:
            return rand_mat(r, n, n);
    }
}

// SPD matrix with condition number ~ kappa; sparse pattern (diagonally dominant) if sparse
static RMatL spd_matrix(Rng& r, long n, ld kappa, bool sparse, long deg = 3)
{
    RVecL d(n);
    for (long i = 0; i < n; i++)
    {
        ld t = n > 1 ? (ld) i / (ld) (n - 1) : 0.0L;
        d[i] = std::pow(kappa, t);
    }
    shuffle(r, d);
    if (!sparse)
    {
        RMatL Q = rand_orth(r, n);
        RMatL B = Q * d.asDiagonal() * Q.transpose();
        return ((B + B.transpose()) * 0.5L).eval();
    }
    RMatL B = RMatL::Zero(n, n);
    for (long i = 0; i < n; i++) B(i, i) = d[i];
    for (long i = 0; i < n; i++)
        for (long k = 0; k < deg; k++)
        {
            long j = (long) r.below((uint64_t) n);
            if (j == i) continue;
            ld v = 0.1L * std::min(d[i], d[j]) / (ld) (2 * std::max<long>(deg, 1)) * urand(r);
            B(i, j) += v;
            B(j, i) += v;
        }
    return B;
}

// block-diagonal SPD matrix with the same block split as a block-diag world (so that the pencil has an
// invariant subspace aligned with the leading coordinates and B-inner-product iterations can break down)
static RMatL spd_blockdiag(Rng& r, long n, long nb, ld kappa, bool sparse)
{
    RMatL B = RMatL::Zero(n, n);
    B.topLeftCorner(nb, nb) = spd_matrix(r, nb, kappa, sparse);
    B.bottomRightCorner(n - nb, n - nb) = spd_matrix(r, n - nb, kappa, sparse);
    return B;
}

static MatL widen(const RMatL& M) { return M.cast<cld>(); }

void gen_matrices(const WorldSpec& w, MatL& A, MatL& B)
{
    Rng r(mix64(w.mseed, 0xA11CE));
    const long n = w.n;
    B.resize(0, 0);
    const ld scale = (ld) w.scale;
    if (w.family == F_HERM)
    {
        // complex Hermitian
        MatL H;
        switch (w.mclass)
        {
            case M_SEPARATED:
            case M_CLUSTERED:
            case M_GRADED:
            case M_REPEATED:
            {
                RVecL d = spectrum(r, w.mclass, n);
                MatL Q = rand_unitary(r, n);
                H = Q * d.cast<cld>().asDiagonal() * Q.adjoint();
                break;
            }
            case M_LOWRANK:
            {
                long rk = std::min<long>(std::max<long>(w.rank, 1), n);
                MatL Q = rand_unitary(r, n);
                RVecL d = RVecL::Zero(n);
                for (long i = 0; i < rk; i++) d[i] = ((ld) (i + 1)) * (r.chance(0.4) ? -1.0L : 1.0L);
                H = Q * d.cast<cld>().asDiagonal() * Q.adjoint();
                break;
            }
            case M_BLOCKDIAG:
            {
                long nb = std::min<long>(std::max<long>(w.nblock, 1), n - 1);
                H = MatL::Zero(n, n);
                for (long j = 0; j < n; j++)
                    for (long i = 0; i < n; i++)
                        if ((i < nb) == (j < nb)) H(i, j) = cld(urand(r), urand(r));
                break;
            }
            default:
                H.resize(n, n);
                for (long j = 0; j < n; j++)
                    for (long i = 0; i < n; i++) H(i, j) = cld(urand(r), urand(r));
        }
        H = ((H + H.adjoint()) * cld(0.5L)).eval();
        for (long i = 0; i < n; i++) H(i, i) = cld(H(i, i).real(), 0.0L);
        A = H * cld(scale);
        return;
    }
    if (family_is_general(w.family))
    {
        A = widen(gen_matrix(r, w, n, w.mclass)) * cld(scale);
        return;
    }
    if (w.family == F_GBUCK)
    {
        // K SPD (A), K_G symmetric (B)
        if (w.mclass == M_BLOCKDIAG)
            A = widen(spd_blockdiag(r, n, std::min<long>(std::max<long>(w.nblock, 1), n - 1), (ld) w.kappaB, (w.variant & 1) != 0)) * cld(scale);
        else
            A = widen(spd_matrix(r, n, (ld) w.kappaB, (w.variant & 1) != 0)) * cld(scale);
        B = widen(sym_matrix(r, w, n, w.mclass));
        return;
    }
    A = widen(sym_matrix(r, w, n, w.mclass)) * cld(scale);
    if (family_has_B(w.family))
    {
        if (w.mclass == M_BLOCKDIAG)
            B = widen(spd_blockdiag(r, n, std::min<long>(std::max<long>(w.nblock, 1), n - 1), (ld) w.kappaB, (w.variant & 2) != 0));
        else
            B = widen(spd_matrix(r, n, (ld) w.kappaB, (w.variant & 2) != 0, (w.mclass == M_SPARSEPAT && w.rank > 0) ? (w.rank >= 2 ? 1 : 0) : 3));
    }
}

void gen_svd_matrix(const WorldSpec& w, MatL& A)
{
    Rng r(mix64(w.mseed, 0x5FD));
    const long m = w.m_rows, n = w.n;
    const long p = std::min(m, n);
    RMatL M;
    if (w.mclass == M_SEPARATED || w.mclass == M_GRADED || w.mclass == M_CLUSTERED)
    {
        // U diag(s) V' with prescribed singular values >= 1e-3
        RMatL U = rand_orth(r, m).leftCols(p), V = rand_orth(r, n).leftCols(p);
        RVecL s(p);
        for (long i = 0; i < p; i++)
        {
            ld t = p > 1 ? (ld) i / (ld) (p - 1) : 0.0L;
            s[i] = (w.mclass == M_GRADED) ? std::pow(10.0L, -3.0L * t) : (1.0L + (ld) (p - i) + 0.1L * urand(r));
        }
        M = U * s.asDiagonal() * V.transpose();
    }
    else if (w.mclass == M_SPARSEPAT)
    {
        M = RMatL::Zero(m, n);
        const double dens = std::min(1.0, 4.0 / (double) p + 0.1);
        for (long j = 0; j < n; j++)
            for (long i = 0; i < m; i++)
                if (r.chance(dens)) M(i, j) = urand(r);
        for (long i = 0; i < p; i++) M(i, i) += 2.0L + (ld) i * 0.1L;
    }
    else
        M = rand_mat(r, m, n);
    A = widen(M) * cld((ld) w.scale);
}

VecL probe_vector(long n)
{
    VecL x(n);
    for (long i = 0; i < n; i++) x[i] = cld(std::sin((ld) (i + 1) * 0.7L) + 0.25L, std::cos((ld) (i + 1) * 1.3L) * 0.5L);
    return x;
}

VecL gen_start_vector(const WorldSpec& w, const MatL& A, int vclass, uint64_t vseed)
{
    Rng r(mix64(vseed, 0xBEEF));
    const long n = w.n;
    const bool cplx = (w.family == F_HERM);
    VecL v(n);
    for (long i = 0; i < n; i++) v[i] = cld(urand(r), cplx ? urand(r) : 0.0L);
    switch (vclass)
    {
        case V_EIGLIKE:
        {
            // a few steps of power iteration make the vector rich in one eigen-direction
            VecL x = v;
            for (int it = 0; it < 30; it++)
            {
                x = (A * x).eval();
                ld nx = x.norm();
                if (nx == 0.0L) break;
                x /= cld(nx);
            }
            if (!cplx) for (long i = 0; i < n; i++) x[i] = cld(x[i].real(), 0.0L);
            if (x.norm() > 0.0L) v = x + v * cld(1e-9L);
            break;
        }
        case V_INVARIANT:
        {
            long nb = (w.mclass == M_BLOCKDIAG) ? std::min<long>(std::max<long>(w.nblock, 1), n - 1) : std::max<long>(1, n / 3);
            for (long i = nb; i < n; i++) v[i] = cld(0.0L, 0.0L);
            break;
        }
        case V_TINY:
            v *= cld(w.scalar == S_FLOAT ? 1e-12L : 1e-100L);
            break;
        case V_HUGE:
            v *= cld(w.scalar == S_FLOAT ? 1e+12L : 1e+100L);
            break;
        case V_WARM:
        {
            // continuation / warm start: eigenvector of a real eigenvalue computed densely, plus small noise
            const ld noise = std::pow(10.0L, urand(r, -12.0L, -6.0L));
            VecL x;
            bool ok = false;
            if (cplx || !family_is_general(w.family))
            {
                Eigen::SelfAdjointEigenSolver<MatL> es(A);
                const long j = (long) r.below((uint64_t) n);
                x = es.eigenvectors().col(j);
                ok = true;
            }
            else
            {
                RMatL R = A.real();
                Eigen::EigenSolver<RMatL> es(R, true);
                for (long j = 0; j < n && !ok; j++)
                    if (es.eigenvalues()[j].imag() == 0.0L)
                    {
                        x = es.eigenvectors().col(j);
                        ok = true;
                    }
            }
            if (ok && x.norm() > 0)
            {
                if (!cplx) for (long i = 0; i < n; i++) x[i] = cld(x[i].real(), 0.0L);
                v = x / cld(x.norm()) + v * cld(noise);
            }
            break;
        }
        case V_COORD:
        {
            long j = (long) r.below((uint64_t) n);
            v.setZero();
            v[j] = cld(1.0L, 0.0L);
            break;
        }
        default: break;
    }
    return v;
}

RVecL eig_sym(const MatL& A)
{
    Eigen::SelfAdjointEigenSolver<MatL> es(A, Eigen::EigenvaluesOnly);
    return es.eigenvalues();
}

VecL eig_gen(const MatL& A)
{
    RMatL R = A.real();
    Eigen::EigenSolver<RMatL> es(R, false);
    return es.eigenvalues();
}

RVecL eig_pencil(const MatL& A, const MatL& B)
{
    RMatL Ar = A.real(), Br = B.real();
    Eigen::GeneralizedSelfAdjointEigenSolver<RMatL> es(Ar, Br, Eigen::EigenvaluesOnly | Eigen::ABx_lx);
    return es.eigenvalues();
}

long double norm2(const MatL& M)
{
    if (M.size() == 0) return 0.0L;
    MatL G = M.adjoint() * M;
    Eigen::SelfAdjointEigenSolver<MatL> es(G, Eigen::EigenvaluesOnly);
    ld mx = es.eigenvalues().maxCoeff();
    return mx > 0 ? std::sqrt(mx) : 0.0L;
}

long double lambda_min_spd(const MatL& B)
{
    Eigen::SelfAdjointEigenSolver<MatL> es(B, Eigen::EigenvaluesOnly);
    return es.eigenvalues().minCoeff();
}

bool choose_shift(WorldSpec& w, Rng& rng, double delta)
{
    MatL A, B;
    gen_matrices(w, A, B);
    std::vector<cld> ev;
    if (w.family == F_SYMSHIFT)
    {
        RVecL d = eig_sym(A);
        for (long i = 0; i < d.size(); i++) ev.push_back(cld(d[i], 0));
    }
    else if (w.family == F_GENRSHIFT || w.family == F_GENCSHIFT)
    {
        VecL d = eig_gen(A);
        for (long i = 0; i < d.size(); i++) ev.push_back(d[i]);
    }
    else if (w.family == F_GSHIFTINV || w.family == F_GCAYLEY)
    {
        RVecL d = eig_pencil(A, B);
        for (long i = 0; i < d.size(); i++) ev.push_back(cld(d[i], 0));
    }
    else if (w.family == F_GBUCK)
    {
        // K x = lambda K_G x  <=>  K_G x = theta K x, theta = 1/lambda; work with theta, sigma = 1/theta_s
        RVecL th = eig_pencil(B, A);
        ld lo = th.minCoeff(), hi = th.maxCoeff();
        ld spread = std::max(hi - lo, (ld) 1e-30L);
        for (int attempt = 0; attempt < 200; attempt++)
        {
            ld ts = lo - 0.2L * spread + (ld) rng.real01() * 1.4L * spread;
            if (std::abs(ts) < 1e-3L * spread) continue;
            ld dist = spread;
            for (long i = 0; i < th.size(); i++) dist = std::min(dist, std::abs(th[i] - ts));
            if (dist < (ld) delta * spread) continue;
            w.sigma = (double) (1.0L / ts);
            w.sigmai = 0;
            return true;
        }
        return false;
    }
    else
        return true;
    ld lo = 1e300L, hi = -1e300L, amax = 0;
    for (auto& z : ev)
    {
        lo = std::min(lo, z.real());
        hi = std::max(hi, z.real());
        amax = std::max(amax, std::abs(z));
    }
    ld spread = std::max(hi - lo, amax * 1e-3L);
    if (spread <= 0) spread = 1;
    for (int attempt = 0; attempt < 200; attempt++)
    {
        ld s = lo - 0.2L * spread + (ld) rng.real01() * 1.4L * spread;
        ld si = 0;
        if (w.family == F_GENCSHIFT) si = spread * (0.05L + 0.45L * (ld) rng.real01());
        if (w.family == F_GCAYLEY && std::abs(s) < 1e-3L * spread) continue;
        ld dist = 1e300L;
        for (auto& z : ev) dist = std::min(dist, std::abs(z - cld(s, si)));
        if (w.family == F_GENCSHIFT)
            for (auto& z : ev) dist = std::min(dist, std::abs(z - cld(s, -si)));
        if (dist < (ld) delta * spread) continue;
        w.sigma = (double) s;
        w.sigmai = (double) si;
        return true;
    }
    return false;
}

}  // namespace sim
