// Shared implementation pieces for the family translation units.
#pragma once
#include <Eigen/Core>
#include <Eigen/SparseCore>
#include <functional>
#include <memory>
#include <type_traits>
#include "../seam/simop.h"
#include "matgen.h"
#include "world.h"

namespace sim {

template <class T> struct is_cplx : std::false_type {};
template <class T> struct is_cplx<std::complex<T>> : std::true_type {};

template <class S>
inline S narrow(const cld& z)
{
    if constexpr (is_cplx<S>::value)
        return S((typename S::value_type) z.real(), (typename S::value_type) z.imag());
    else
        return (S) z.real();
}
template <class S>
inline cld widen1(const S& z)
{
    if constexpr (is_cplx<S>::value)
        return cld((long double) z.real(), (long double) z.imag());
    else
        return cld((long double) z, 0.0L);
}

template <class S>
Eigen::Matrix<S, Eigen::Dynamic, Eigen::Dynamic> narrow_mat(const MatL& M)
{
    Eigen::Matrix<S, Eigen::Dynamic, Eigen::Dynamic> R(M.rows(), M.cols());
    for (long j = 0; j < M.cols(); j++)
        for (long i = 0; i < M.rows(); i++) R(i, j) = narrow<S>(M(i, j));
    return R;
}
template <class Derived>
MatL widen_mat(const Eigen::MatrixBase<Derived>& M)
{
    MatL R(M.rows(), M.cols());
    for (long j = 0; j < M.cols(); j++)
        for (long i = 0; i < M.rows(); i++) R(i, j) = widen1(M(i, j));
    return R;
}

// raw bits of an Eigen dense object (column-major plain object)
template <class Derived>
void raw_bytes(const Eigen::PlainObjectBase<Derived>& M, std::vector<unsigned char>& out)
{
    typedef typename Derived::Scalar Sc;
    // long double has 6 bytes of padding with unspecified content: copy value bytes only
    const size_t n = (size_t) M.size();
    if constexpr (std::is_same<Sc, long double>::value || std::is_same<Sc, std::complex<long double>>::value)
    {
        const size_t per = sizeof(Sc) / 16;
        out.resize(n * per * 10);
        const unsigned char* p = (const unsigned char*) M.data();
        for (size_t i = 0; i < n * per; i++) std::memcpy(&out[i * 10], p + i * 16, 10);
    }
    else
    {
        out.resize(n * sizeof(Sc));
        if (n) std::memcpy(out.data(), M.data(), n * sizeof(Sc));
    }
}

// ISolver over any Spectra solver class of the Arnoldi/Lanczos family
template <class Solver, class S>
struct SolverAdaptor : ISolver
{
    typedef typename Eigen::NumTraits<S>::Real Real;
    // The shift-and-invert solvers take their shift as `const Scalar&`. The harness hands over a caller's VARIABLE (not a
    // temporary) and overwrites it as soon as the constructor has returned - what a caller does who loops over shifts or
    // builds solvers in a factory function. A solver that keeps the reference instead of the value then works with garbage,
    // with fully defined behaviour (the variable stays alive as long as the solver), so the numeric oracles see it.
    struct CallerVars { S v[2]; };
    std::unique_ptr<CallerVars> vars;  // declared before `s`: constructed first
    Solver s;
    template <class... Args>
    explicit SolverAdaptor(Args&&... args) : s(std::forward<Args>(args)...) {}
    struct Shift1 {};
    struct Shift2 {};
    static S scribbled(S x) { return S(-3) * x + S(17); }
    template <class... Args>
    SolverAdaptor(Shift1, S sigma, Args&&... args) : vars(new CallerVars{{sigma, S(0)}}), s(std::forward<Args>(args)..., vars->v[0])
    {
        vars->v[0] = scribbled(sigma);
    }
    template <class... Args>
    SolverAdaptor(Shift2, S sigmar, S sigmai, Args&&... args) :
        vars(new CallerVars{{sigmar, sigmai}}), s(std::forward<Args>(args)..., vars->v[0], vars->v[1])
    {
        vars->v[0] = scribbled(sigmar);
        vars->v[1] = scribbled(sigmai);
    }
    void init0() override { s.init(); }
    void initv(const VecL& v) override
    {
        Eigen::Matrix<S, Eigen::Dynamic, 1> x(v.size());
        for (long i = 0; i < v.size(); i++) x[i] = narrow<S>(v[i]);
        s.init(x.data());
    }
    long compute(int sel, long maxit, long double tol, int sort) override
    {
        return (long) s.compute((Spectra::SortRule) sel, (Eigen::Index) maxit, (Real) tol, (Spectra::SortRule) sort);
    }
    int info() const override { return (int) s.info(); }
    long niter() const override { return (long) s.num_iterations(); }
    long nops() const override { return (long) s.num_operations(); }
    void values(Snapshot& out) const override
    {
        auto ev = s.eigenvalues();
        out.nvals = (long) ev.size();
        raw_bytes(ev, out.val_bytes);
        out.vals.resize(ev.size());
        for (long i = 0; i < ev.size(); i++) out.vals[i] = widen1(ev[i]);
    }
    void vectors(Snapshot& out, long nvec) const override
    {
        auto V = (nvec < 0) ? s.eigenvectors() : s.eigenvectors((Eigen::Index) nvec);
        out.vrows = (long) V.rows();
        out.vcols = (long) V.cols();
        raw_bytes(V, out.vec_bytes);
        out.vecs = widen_mat(V);
    }
};

// owns one REAL library wrapper object, its type-erased adaptor and the seam object around it
template <class S>
struct OpBox
{
    std::shared_ptr<void> wrapper;
    std::unique_ptr<IInner<S>> inner;
    std::unique_ptr<SimOp<S>> op;
    std::function<IInner<S>*()> clone_inner;  // a second adaptor around the same wrapper object
    template <class W, class... Args>
    W& emplace(SeamCtl* ctl, Args&&... args)
    {
        auto p = std::make_shared<W>(std::forward<Args>(args)...);
        inner.reset(new InnerOf<S, W>(*p));
        wrapper = p;
        clone_inner = [p]() -> IInner<S>* { return new InnerOf<S, W>(*p); };
        ctl->n = (long) p->rows();
        op.reset(new SimOp<S>(inner.get(), ctl));
        return *p;
    }
    // view on another box's wrapper
    void share_from(const OpBox<S>& o, SeamCtl* ctl)
    {
        wrapper = o.wrapper;
        clone_inner = o.clone_inner;
        inner.reset(o.clone_inner());
        ctl->n = (long) inner->rows();
        op.reset(new SimOp<S>(inner.get(), ctl));
    }
};

// apply one method of an inner operator to the probe vector and append the raw output
template <class S, class F>
void probe_apply(long n, std::vector<unsigned char>& out, F&& f)
{
    VecL xl = probe_vector(n);
    Eigen::Matrix<S, Eigen::Dynamic, 1> x(n), y(n);
    for (long i = 0; i < n; i++) x[i] = narrow<S>(xl[i]);
    y.setZero();
    try
    {
        f(x.data(), y.data());
    }
    catch (const SeamUnsupported&)
    {
        return;
    }
    catch (const std::exception& e)
    {
        // the real wrapper refuses to work (e.g. SparseRegularInverse left in a failed state): that IS the state of the
        // operator, recorded in the probe so that it compares unequal to the probe of a healthy operator
        static const char tag[] = "<probe threw>";
        out.insert(out.end(), tag, tag + sizeof(tag));
        for (const char* c = e.what(); *c; c++) out.push_back((unsigned char) *c);
        return;
    }
    std::vector<unsigned char> b;
    raw_bytes(y, b);
    out.insert(out.end(), b.begin(), b.end());
}

template <class S>
void probe_inner(IInner<S>* in, std::vector<unsigned char>& out)
{
    const long n = in->rows();
    probe_apply<S>(n, out, [&](const S* x, S* y) { in->perform_op(x, y); });
    probe_apply<S>(n, out, [&](const S* x, S* y) { in->solve(x, y); });
    probe_apply<S>(n, out, [&](const S* x, S* y) { in->lower_triangular_solve(x, y); });
    probe_apply<S>(n, out, [&](const S* x, S* y) { in->upper_triangular_solve(x, y); });
}

template <class S>
void apply_inner_impl(IInner<S>* in, int method, const VecL& xl, VecL& yl)
{
    const long n = in->rows();
    Eigen::Matrix<S, Eigen::Dynamic, 1> x(n), y(n);
    for (long i = 0; i < n; i++) x[i] = narrow<S>(xl[i]);
    y.setZero();
    switch (method)
    {
        case M_PERFORM: in->perform_op(x.data(), y.data()); break;
        case M_SOLVE: in->solve(x.data(), y.data()); break;
        case M_LOWER: in->lower_triangular_solve(x.data(), y.data()); break;
        case M_UPPER: in->upper_triangular_solve(x.data(), y.data()); break;
        default: break;
    }
    yl.resize(n);
    for (long i = 0; i < n; i++) yl[i] = widen1(y[i]);
}

template <class S>
struct ScalarInfo
{
    typedef typename Eigen::NumTraits<S>::Real Real;
    static long double eps() { return (long double) Eigen::NumTraits<Real>::epsilon(); }
};

// Storage of a symmetric / Hermitian matrix for a wrapper that is documented to read ONE triangle (template
// parameter Uplo): the other strict triangle is "not referenced". mode 0 leaves the full matrix, mode 1 fills the
// unreferenced triangle with wrong values (same sparsity pattern), mode 2 clears it (one-triangle storage). A wrapper
// that reads the wrong triangle anywhere (product, factorization, shifted pencil) then computes with a visibly
// different matrix, while the oracles keep using the true one.
template <class S>
Eigen::Matrix<S, Eigen::Dynamic, Eigen::Dynamic> one_triangle_storage(const Eigen::Matrix<S, Eigen::Dynamic, Eigen::Dynamic>& M, bool referenced_upper,
                                                                        int mode)
{
    typedef typename Eigen::NumTraits<S>::Real Real;
    Eigen::Matrix<S, Eigen::Dynamic, Eigen::Dynamic> R = M;
    if (mode == 0 || M.size() == 0) return R;
    const Real mag = M.cwiseAbs().maxCoeff();
    for (long j = 0; j < M.cols(); j++)
        for (long i = 0; i < M.rows(); i++)
        {
            const bool in_upper = i < j, in_lower = i > j;
            if (!(referenced_upper ? in_lower : in_upper)) continue;
            if (mode == 2) R(i, j) = S(0);
            else if (M(i, j) != S(0)) R(i, j) = S(mag * Real(1.5 + 0.25 * (double) ((i * 7 + j * 13) % 11)));
        }
    return R;
}
inline int triangle_mode(const WorldSpec& w, uint64_t which) { return (int) (mix64(w.mseed, 0x7A1A + which) % 3); }

template <class S>
Eigen::SparseMatrix<S> to_sparse(const Eigen::Matrix<S, Eigen::Dynamic, Eigen::Dynamic>& M)
{
    Eigen::SparseMatrix<S> sp = M.sparseView();
    sp.makeCompressed();
    return sp;
}

}  // namespace sim
