#include "fam_geigs.h"
namespace sim {
static FamilyRegistration r1(F_GSHIFTINV, S_DOUBLE, &world_factory_g<WorldGShift<double, Spectra::GEigsMode::ShiftInvert>>);
static FamilyRegistration r2(F_GBUCK, S_DOUBLE, &world_factory_g<WorldGShift<double, Spectra::GEigsMode::Buckling>>);
static FamilyRegistration r3(F_GCAYLEY, S_DOUBLE, &world_factory_g<WorldGShift<double, Spectra::GEigsMode::Cayley>>);
}
