// Worlds of the standard (B = I) solver families.
#pragma once
#include <Spectra/SymEigsSolver.h>
#include <Spectra/HermEigsSolver.h>
#include <Spectra/SymEigsShiftSolver.h>
#include <Spectra/GenEigsSolver.h>
#include <Spectra/GenEigsRealShiftSolver.h>
#include <Spectra/GenEigsComplexShiftSolver.h>
#include <Spectra/MatOp/DenseSymMatProd.h>
#include <Spectra/MatOp/SparseSymMatProd.h>
#include <Spectra/MatOp/DenseHermMatProd.h>
#include <Spectra/MatOp/SparseHermMatProd.h>
#include <Spectra/MatOp/DenseGenMatProd.h>
#include <Spectra/MatOp/SparseGenMatProd.h>
#include <Spectra/MatOp/DenseSymShiftSolve.h>
#include <Spectra/MatOp/SparseSymShiftSolve.h>
#include <Spectra/MatOp/DenseGenRealShiftSolve.h>
#include <Spectra/MatOp/SparseGenRealShiftSolve.h>
#include <Spectra/MatOp/DenseGenComplexShiftSolve.h>
#include <Spectra/MatOp/SparseGenComplexShiftSolve.h>
#include "family_impl.h"
#include "krylov_impl.h"

namespace sim {

// common part: one operator A
template <class S>
struct WorldStd : IWorld
{
    typedef Eigen::Matrix<S, Eigen::Dynamic, Eigen::Dynamic> Mat;
    typedef Eigen::SparseMatrix<S> SpMat;
    typedef typename Eigen::NumTraits<S>::Real Real;
    Mat Ad;
    SpMat As;
    OpBox<S> box;
    bool sparse, upper;
    explicit WorldStd(const WorldSpec& w)
    {
        spec = w;
        MatL Al, Bl;
        gen_matrices(w, Al, Bl);
        Ad = narrow_mat<S>(Al);
        A = widen_mat(Ad);
        eps = ScalarInfo<S>::eps();
        ctlA.target = 0;
        ctlB.target = 1;
        sparse = (w.variant & 1) != 0;
        upper = (w.variant & 4) != 0;
        if (sparse) As = to_sparse(Ad);
    }
    // symmetric / Hermitian wrappers reference one triangle only: what they are given has the other one scribbled
    void one_triangle()
    {
        Ad = one_triangle_storage<S>(Ad, upper, triangle_mode(spec, 0));
        if (sparse) As = to_sparse(Ad);
    }
    // view sharing the owner's product wrapper (matrices are not regenerated; the owner keeps them alive)
    struct ShareTag {};
    WorldStd(const WorldStd& owner, const WorldSpec& w, ShareTag)
    {
        spec = w;
        A = owner.A;
        eps = owner.eps;
        ctlA.target = 0;
        ctlB.target = 1;
        sparse = owner.sparse;
        upper = owner.upper;
        box.share_from(owner.box, &ctlA);
    }
    void probe(std::vector<unsigned char>& out) override { probe_inner(box.inner.get(), out); }
    void apply_inner(int, int method, const VecL& x, VecL& y) override { apply_inner_impl<S>(box.inner.get(), method, x, y); }
};

template <class S>
struct WorldSym : WorldStd<S>
{
    using WorldStd<S>::box; using WorldStd<S>::Ad; using WorldStd<S>::As; using WorldStd<S>::ctlA; using WorldStd<S>::spec;
    WorldSym(const WorldSym& owner, const WorldSpec& w, typename WorldStd<S>::ShareTag t) : WorldStd<S>(owner, w, t) {}
    std::unique_ptr<IWorld> share_operator(const WorldSpec& view_spec) override
    {
        return std::unique_ptr<IWorld>(new WorldSym(*this, view_spec, typename WorldStd<S>::ShareTag()));
    }
    std::unique_ptr<IKrylov> make_krylov() override { return std::unique_ptr<IKrylov>(new LanczosDriver<S, SimOp<S>, Spectra::IdentityBOp>(*box.op, Spectra::IdentityBOp(), (long) spec.ncv)); }
    explicit WorldSym(const WorldSpec& w) : WorldStd<S>(w)
    {
        this->one_triangle();
        if (!this->sparse)
        {
            if (!this->upper) box.template emplace<Spectra::DenseSymMatProd<S>>(&ctlA, Ad);
            else box.template emplace<Spectra::DenseSymMatProd<S, Eigen::Upper>>(&ctlA, Ad);
        }
        else
        {
            if (!this->upper) box.template emplace<Spectra::SparseSymMatProd<S>>(&ctlA, As);
            else box.template emplace<Spectra::SparseSymMatProd<S, Eigen::Upper>>(&ctlA, As);
        }
    }
    std::unique_ptr<ISolver> make_solver() override
    {
        return std::unique_ptr<ISolver>(new SolverAdaptor<Spectra::SymEigsSolver<SimOp<S>>, S>(*box.op, (Eigen::Index) spec.nev, (Eigen::Index) spec.ncv));
    }
};

template <class S>
struct WorldHerm : WorldStd<S>
{
    using WorldStd<S>::box; using WorldStd<S>::Ad; using WorldStd<S>::As; using WorldStd<S>::ctlA; using WorldStd<S>::spec;
    WorldHerm(const WorldHerm& owner, const WorldSpec& w, typename WorldStd<S>::ShareTag t) : WorldStd<S>(owner, w, t) {}
    std::unique_ptr<IWorld> share_operator(const WorldSpec& view_spec) override
    {
        return std::unique_ptr<IWorld>(new WorldHerm(*this, view_spec, typename WorldStd<S>::ShareTag()));
    }
    std::unique_ptr<IKrylov> make_krylov() override { return std::unique_ptr<IKrylov>(new LanczosDriver<S, SimOp<S>, Spectra::IdentityBOp>(*box.op, Spectra::IdentityBOp(), (long) spec.ncv)); }
    explicit WorldHerm(const WorldSpec& w) : WorldStd<S>(w)
    {
        this->one_triangle();
        if (!this->sparse)
        {
            if (!this->upper) box.template emplace<Spectra::DenseHermMatProd<S>>(&ctlA, Ad);
            else box.template emplace<Spectra::DenseHermMatProd<S, Eigen::Upper>>(&ctlA, Ad);
        }
        else
        {
            if (!this->upper) box.template emplace<Spectra::SparseHermMatProd<S>>(&ctlA, As);
            else box.template emplace<Spectra::SparseHermMatProd<S, Eigen::Upper>>(&ctlA, As);
        }
    }
    std::unique_ptr<ISolver> make_solver() override
    {
        return std::unique_ptr<ISolver>(new SolverAdaptor<Spectra::HermEigsSolver<SimOp<S>>, S>(*box.op, (Eigen::Index) spec.nev, (Eigen::Index) spec.ncv));
    }
};

template <class S>
struct WorldSymShift : WorldStd<S>
{
    using WorldStd<S>::box; using WorldStd<S>::Ad; using WorldStd<S>::As; using WorldStd<S>::ctlA; using WorldStd<S>::spec;
    explicit WorldSymShift(const WorldSpec& w) : WorldStd<S>(w)
    {
        this->one_triangle();
        if (!this->sparse)
        {
            if (!this->upper) box.template emplace<Spectra::DenseSymShiftSolve<S>>(&ctlA, Ad);
            else box.template emplace<Spectra::DenseSymShiftSolve<S, Eigen::Upper>>(&ctlA, Ad);
        }
        else
        {
            if (!this->upper) box.template emplace<Spectra::SparseSymShiftSolve<S>>(&ctlA, As);
            else box.template emplace<Spectra::SparseSymShiftSolve<S, Eigen::Upper>>(&ctlA, As);
        }
    }
    std::unique_ptr<ISolver> make_solver() override
    {
        return std::unique_ptr<ISolver>(new SolverAdaptor<Spectra::SymEigsShiftSolver<SimOp<S>>, S>(typename SolverAdaptor<Spectra::SymEigsShiftSolver<SimOp<S>>, S>::Shift1(), (S) spec.sigma, *box.op, (Eigen::Index) spec.nev, (Eigen::Index) spec.ncv));
    }
};

template <class S>
struct WorldGen : WorldStd<S>
{
    using WorldStd<S>::box; using WorldStd<S>::Ad; using WorldStd<S>::As; using WorldStd<S>::ctlA; using WorldStd<S>::spec;
    WorldGen(const WorldGen& owner, const WorldSpec& w, typename WorldStd<S>::ShareTag t) : WorldStd<S>(owner, w, t) {}
    std::unique_ptr<IWorld> share_operator(const WorldSpec& view_spec) override
    {
        return std::unique_ptr<IWorld>(new WorldGen(*this, view_spec, typename WorldStd<S>::ShareTag()));
    }
    std::unique_ptr<IKrylov> make_krylov() override { return std::unique_ptr<IKrylov>(new ArnoldiDriver<S, SimOp<S>>(*box.op, (long) spec.ncv)); }
    explicit WorldGen(const WorldSpec& w) : WorldStd<S>(w)
    {
        if (!this->sparse) box.template emplace<Spectra::DenseGenMatProd<S>>(&ctlA, Ad);
        else box.template emplace<Spectra::SparseGenMatProd<S>>(&ctlA, As);
    }
    std::unique_ptr<ISolver> make_solver() override
    {
        return std::unique_ptr<ISolver>(new SolverAdaptor<Spectra::GenEigsSolver<SimOp<S>>, S>(*box.op, (Eigen::Index) spec.nev, (Eigen::Index) spec.ncv));
    }
};

template <class S>
struct WorldGenRShift : WorldStd<S>
{
    using WorldStd<S>::box; using WorldStd<S>::Ad; using WorldStd<S>::As; using WorldStd<S>::ctlA; using WorldStd<S>::spec;
    explicit WorldGenRShift(const WorldSpec& w) : WorldStd<S>(w)
    {
        if (!this->sparse) box.template emplace<Spectra::DenseGenRealShiftSolve<S>>(&ctlA, Ad);
        else box.template emplace<Spectra::SparseGenRealShiftSolve<S>>(&ctlA, As);
    }
    std::unique_ptr<ISolver> make_solver() override
    {
        return std::unique_ptr<ISolver>(new SolverAdaptor<Spectra::GenEigsRealShiftSolver<SimOp<S>>, S>(typename SolverAdaptor<Spectra::GenEigsRealShiftSolver<SimOp<S>>, S>::Shift1(), (S) spec.sigma, *box.op, (Eigen::Index) spec.nev, (Eigen::Index) spec.ncv));
    }
};

template <class S>
struct WorldGenCShift : WorldStd<S>
{
    using WorldStd<S>::box; using WorldStd<S>::Ad; using WorldStd<S>::As; using WorldStd<S>::ctlA; using WorldStd<S>::spec;
    explicit WorldGenCShift(const WorldSpec& w) : WorldStd<S>(w)
    {
        if (!this->sparse) box.template emplace<Spectra::DenseGenComplexShiftSolve<S>>(&ctlA, Ad);
        else box.template emplace<Spectra::SparseGenComplexShiftSolve<S>>(&ctlA, As);
    }
    std::unique_ptr<ISolver> make_solver() override
    {
        return std::unique_ptr<ISolver>(new SolverAdaptor<Spectra::GenEigsComplexShiftSolver<SimOp<S>>, S>(typename SolverAdaptor<Spectra::GenEigsComplexShiftSolver<SimOp<S>>, S>::Shift2(), (S) spec.sigma, (S) spec.sigmai, *box.op, (Eigen::Index) spec.nev, (Eigen::Index) spec.ncv));
    }
};

template <class W>
std::unique_ptr<IWorld> world_factory(const WorldSpec& w)
{
    return std::unique_ptr<IWorld>(new W(w));
}

}  // namespace sim
