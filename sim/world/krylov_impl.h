// Direct driver of the factorization classes (C07): reproduces the solvers' restart() with the public
// QR helper classes, but with shifts and restart sizes chosen by the simulator.
#pragma once
#include <Spectra/LinAlg/Arnoldi.h>
#include <Spectra/LinAlg/Lanczos.h>
#include <Spectra/LinAlg/TridiagEigen.h>
#include <Spectra/LinAlg/UpperHessenbergEigen.h>
#include <Spectra/LinAlg/UpperHessenbergQR.h>
#include <Spectra/LinAlg/DoubleShiftQR.h>
#include "family_impl.h"

namespace sim {

// Lanczos: real symmetric / complex Hermitian operator, optional B-inner product
template <class S, class OpT, class BOpT>
struct LanczosDriver : IKrylov
{
    typedef typename Eigen::NumTraits<S>::Real Real;
    typedef Spectra::ArnoldiOp<S, OpT, BOpT> AOp;
    typedef Eigen::Matrix<Real, Eigen::Dynamic, Eigen::Dynamic> RealMatrix;
    typedef Eigen::Matrix<Real, Eigen::Dynamic, 1> RealVector;
    Spectra::Lanczos<S, AOp> fac;
    Eigen::Index nops = 0;
    long m;
    LanczosDriver(const OpT& op, const BOpT& bop, long m_) : fac(AOp(op, bop), (Eigen::Index) m_), m(m_) {}
    void init(const VecL& v0) override
    {
        Eigen::Matrix<S, Eigen::Dynamic, 1> x(v0.size());
        for (long i = 0; i < v0.size(); i++) x[i] = narrow<S>(v0[i]);
        Eigen::Map<const Eigen::Matrix<S, Eigen::Dynamic, 1>> mv(x.data(), x.size());
        fac.init(mv, nops);
    }
    void extend(long to) override { fac.factorize_from(fac.subspace_dim(), (Eigen::Index) to, nops); }
    void restart(long k, int mode, uint64_t seed) override
    {
        const long nshift = m - k;
        if (nshift <= 0 || fac.subspace_dim() != m) return;
        Rng r(seed);
        RealVector shifts(nshift);
        RealMatrix H = fac.matrix_H().real();
        if (mode == 0)
        {
            Spectra::TridiagEigen<Real> eig(H);
            RealVector ev = eig.eigenvalues();
            // unwanted end of the spectrum: the nshift smallest in magnitude, largest magnitude first (as the solvers do)
            std::vector<Real> v(ev.data(), ev.data() + ev.size());
            std::sort(v.begin(), v.end(), [](Real a, Real b) { return std::abs(a) < std::abs(b); });
            for (long i = 0; i < nshift; i++) shifts[i] = v[(size_t) (nshift - 1 - i)];
        }
        else
        {
            const Real sc = H.cwiseAbs().maxCoeff();
            for (long i = 0; i < nshift; i++) shifts[i] = sc * (Real) (2.0 * r.real01() - 1.0);
        }
        Spectra::TridiagQR<Real> decomp((Eigen::Index) m);
        RealMatrix Q = RealMatrix::Identity(m, m);
        for (long i = 0; i < nshift; i++)
        {
            decomp.compute(fac.matrix_H().real(), shifts[i]);
            decomp.apply_YQ(Q);
            fac.compress_H(decomp);
        }
        fac.compress_V(Q);
        fac.factorize_from((Eigen::Index) k, (Eigen::Index) m, nops);
    }
    long dim() const override { return (long) fac.subspace_dim(); }
    long full_dim() const override { return m; }
    bool lanczos() const override { return true; }
};

// Arnoldi: real general operator
template <class S, class OpT>
struct ArnoldiDriver : IKrylov
{
    typedef Spectra::ArnoldiOp<S, OpT, Spectra::IdentityBOp> AOp;
    typedef Eigen::Matrix<S, Eigen::Dynamic, Eigen::Dynamic> Matrix;
    typedef std::complex<S> Complex;
    Spectra::Arnoldi<S, AOp> fac;
    Eigen::Index nops = 0;
    long m;
    ArnoldiDriver(const OpT& op, long m_) : fac(AOp(op, Spectra::IdentityBOp()), (Eigen::Index) m_), m(m_) {}
    void init(const VecL& v0) override
    {
        Eigen::Matrix<S, Eigen::Dynamic, 1> x(v0.size());
        for (long i = 0; i < v0.size(); i++) x[i] = narrow<S>(v0[i]);
        Eigen::Map<const Eigen::Matrix<S, Eigen::Dynamic, 1>> mv(x.data(), x.size());
        fac.init(mv, nops);
    }
    void extend(long to) override { fac.factorize_from(fac.subspace_dim(), (Eigen::Index) to, nops); }
    void restart(long k, int mode, uint64_t seed) override
    {
        if (k >= m || fac.subspace_dim() != m) return;
        Rng r(seed);
        // list of shifts: real ones, and conjugate pairs (stored once, flagged)
        std::vector<Complex> shifts;
        long remaining = m - k;
        if (mode == 0)
        {
            Spectra::UpperHessenbergEigen<S> eig(fac.matrix_H());
            auto ev = eig.eigenvalues();
            std::vector<Complex> v(ev.data(), ev.data() + ev.size());
            // smallest magnitude first = unwanted for a largest-magnitude selection; keep conjugate pairs together
            std::stable_sort(v.begin(), v.end(), [](const Complex& a, const Complex& b) { return std::abs(a) < std::abs(b); });
            for (size_t i = 0; i < v.size() && remaining > 0;)
            {
                if (v[i].imag() != S(0) && i + 1 < v.size() && v[i + 1] == std::conj(v[i]))
                {
                    if (remaining >= 2) { shifts.push_back(v[i]); remaining -= 2; }
                    i += 2;
                }
                else
                {
                    shifts.push_back(Complex(v[i].real(), S(0)));
                    remaining -= 1;
                    i += 1;
                }
            }
        }
        else
        {
            const S sc = fac.matrix_H().cwiseAbs().maxCoeff();
            while (remaining > 0)
            {
                if (mode == 2 && remaining >= 2 && r.chance(0.6))
                {
                    shifts.push_back(Complex(sc * (S) (2.0 * r.real01() - 1.0), sc * (S) (0.05 + r.real01())));
                    remaining -= 2;
                }
                else
                {
                    shifts.push_back(Complex(sc * (S) (2.0 * r.real01() - 1.0), S(0)));
                    remaining -= 1;
                }
            }
        }
        if (remaining > 0) return;  // could not reach k without splitting a pair: leave the factorization as it is
        Spectra::DoubleShiftQR<S> ds((Eigen::Index) m);
        Spectra::UpperHessenbergQR<S> hb((Eigen::Index) m);
        Matrix Q = Matrix::Identity(m, m);
        for (const Complex& mu : shifts)
        {
            if (mu.imag() != S(0))
            {
                ds.compute(fac.matrix_H(), S(2) * mu.real(), std::norm(mu));
                ds.apply_YQ(Q);
                fac.compress_H(ds);
            }
            else
            {
                hb.compute(fac.matrix_H(), mu.real());
                hb.apply_YQ(Q);
                fac.compress_H(hb);
            }
        }
        fac.compress_V(Q);
        fac.factorize_from(fac.subspace_dim(), (Eigen::Index) m, nops);
    }
    long dim() const override { return (long) fac.subspace_dim(); }
    long full_dim() const override { return m; }
    bool lanczos() const override { return false; }
};

}  // namespace sim
