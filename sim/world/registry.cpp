#include "world.h"
namespace sim {
static WorldFactory& slot(int family, int scalar)
{
    static WorldFactory table[F_COUNT][3];
    return table[family][scalar];
}
FamilyRegistration::FamilyRegistration(int family, int scalar, WorldFactory f) { slot(family, scalar) = f; }
bool world_supported(int family, int scalar)
{
    return family >= 0 && family < F_COUNT && scalar >= 0 && scalar < 3 && slot(family, scalar) != nullptr;
}
std::unique_ptr<IWorld> make_world(const WorldSpec& spec)
{
    if (!world_supported(spec.family, spec.scalar)) throw std::runtime_error("world: family/scalar not built into this binary");
    return slot(spec.family, spec.scalar)(spec);
}
}  // namespace sim
