#include "fam_std.h"
namespace sim {
static FamilyRegistration r1(F_GENRSHIFT, S_FLOAT, &world_factory<WorldGenRShift<float>>);
static FamilyRegistration r2(F_GENCSHIFT, S_FLOAT, &world_factory<WorldGenCShift<float>>);
}
