#include "fam_std.h"
namespace sim {
static FamilyRegistration r1(F_SYM, S_DOUBLE, &world_factory<WorldSym<double>>);
static FamilyRegistration r2(F_SYMSHIFT, S_DOUBLE, &world_factory<WorldSymShift<double>>);
}
