#include "fam_std.h"
namespace sim {
static FamilyRegistration r1(F_GEN, S_LDOUBLE, &world_factory<WorldGen<long double>>);
}
