#include "fam_std.h"
namespace sim {
static FamilyRegistration r1(F_GEN, S_FLOAT, &world_factory<WorldGen<float>>);
}
