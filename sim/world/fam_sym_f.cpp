#include "fam_std.h"
namespace sim {
static FamilyRegistration r1(F_SYM, S_FLOAT, &world_factory<WorldSym<float>>);
static FamilyRegistration r2(F_SYMSHIFT, S_FLOAT, &world_factory<WorldSymShift<float>>);
}
