// Workload: matrices, start vectors and shifts, generated in long double from explicit seeds.
#pragma once
#include "world.h"

namespace sim {

// A (and B for generalized families; for F_GBUCK A = K (SPD), B = K_G (symmetric)) before the cast to
// the solver's scalar type. Deterministic function of the spec.
void gen_matrices(const WorldSpec& w, MatL& A, MatL& B);

// SVD worlds: m_rows x n matrix
void gen_svd_matrix(const WorldSpec& w, MatL& A);

// start vector of class vclass (for the iterated operator's domain: length n)
VecL gen_start_vector(const WorldSpec& w, const MatL& A, int vclass, uint64_t vseed);

// fixed probe vector
VecL probe_vector(long n);

// picks sigma (and sigmai) for the shift families so that the factorized matrix is well defined:
// distance >= delta * spread from every (generalized) eigenvalue. Returns false if no shift was found.
bool choose_shift(WorldSpec& w, Rng& rng, double delta);

// spectra (long double dense eigen-solvers)
RVecL eig_sym(const MatL& A);                    // Hermitian
VecL eig_gen(const MatL& A);                     // real general
RVecL eig_pencil(const MatL& A, const MatL& B);  // A x = lambda B x, B SPD
long double norm2(const MatL& M);                // spectral norm
long double lambda_min_spd(const MatL& B);

}  // namespace sim
