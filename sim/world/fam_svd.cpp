// PartialSVDSolver worlds: no operator seam (the solver builds its operator internally).
#include <Spectra/contrib/PartialSVDSolver.h>
#include "family_impl.h"
namespace sim {

template <class MatrixType>
struct SvdAdaptor : ISvd
{
    typedef typename MatrixType::Scalar S;
    Spectra::PartialSVDSolver<MatrixType> s;
    SvdAdaptor(const MatrixType& M, long ncomp, long ncv) : s(M, (Eigen::Index) ncomp, (Eigen::Index) ncv) {}
    long compute(long maxit, long double tol) override { return (long) s.compute((Eigen::Index) maxit, (S) tol); }
    void singular_values(Snapshot& out) const override
    {
        auto sv = s.singular_values();
        out.nvals = (long) sv.size();
        raw_bytes(sv, out.val_bytes);
        out.vals.resize(sv.size());
        for (long i = 0; i < sv.size(); i++) out.vals[i] = widen1(sv[i]);
    }
    void fill(Snapshot& out, const Eigen::Matrix<S, Eigen::Dynamic, Eigen::Dynamic>& M)
    {
        out.vrows = (long) M.rows();
        out.vcols = (long) M.cols();
        raw_bytes(M, out.vec_bytes);
        out.vecs = widen_mat(M);
    }
    void matrix_U(Snapshot& out, long k) override { fill(out, s.matrix_U((Eigen::Index) k)); }
    void matrix_V(Snapshot& out, long k) override { fill(out, s.matrix_V((Eigen::Index) k)); }
};

// C20: a PartialSVDSolver driven through the generic solver interface of a simulated task (compute = compute(maxit, tol);
// values = singular values; vectors = [U; V] stacked). No seam: yield points are API boundaries and basic-block edges.
struct SvdAsSolver : ISolver
{
    std::unique_ptr<ISvd> svd;
    long ncomp;
    SvdAsSolver(std::unique_ptr<ISvd> s, long k) : svd(std::move(s)), ncomp(k) {}
    void init0() override {}
    void initv(const VecL&) override {}
    long compute(int, long maxit, long double tol, int) override { return svd->compute(maxit, tol); }
    int info() const override { return 0; }
    long niter() const override { return 0; }
    long nops() const override { return 0; }
    void values(Snapshot& out) const override { svd->singular_values(out); }
    void vectors(Snapshot& out, long nvec) const override
    {
        Snapshot u, v;
        const long k = nvec < 0 ? ncomp : nvec;
        svd->matrix_U(u, k);
        svd->matrix_V(v, k);
        out.vrows = u.vrows + v.vrows;
        out.vcols = u.vcols;
        out.vec_bytes = u.vec_bytes;
        out.vec_bytes.insert(out.vec_bytes.end(), v.vec_bytes.begin(), v.vec_bytes.end());
        out.vecs.resize(0, 0);
    }
};

template <class S>
struct WorldSvd : IWorld
{
    typedef Eigen::Matrix<S, Eigen::Dynamic, Eigen::Dynamic> Mat;
    typedef Eigen::Matrix<S, Eigen::Dynamic, Eigen::Dynamic, Eigen::RowMajor> MatR;
    typedef Eigen::SparseMatrix<S> SpMat;
    typedef Eigen::SparseMatrix<S, Eigen::RowMajor> SpMatR;
    Mat Ad;
    MatR Ar;
    SpMat As;
    SpMatR Asr;
    explicit WorldSvd(const WorldSpec& w)
    {
        spec = w;
        MatL Al;
        gen_svd_matrix(w, Al);
        Ad = narrow_mat<S>(Al);
        A = widen_mat(Ad);
        eps = ScalarInfo<S>::eps();
        Ar = Ad;
        As = to_sparse(Ad);
        Asr = As;
    }
    std::unique_ptr<ISolver> make_solver() override { return std::unique_ptr<ISolver>(new SvdAsSolver(make_svd(), spec.nev)); }
    std::unique_ptr<ISvd> make_svd() override
    {
        const bool sparse = (spec.variant & 1) != 0, rowmajor = (spec.variant & 8) != 0;
        if (!sparse && !rowmajor) return std::unique_ptr<ISvd>(new SvdAdaptor<Mat>(Ad, spec.nev, spec.ncv));
        if (!sparse && rowmajor) return std::unique_ptr<ISvd>(new SvdAdaptor<MatR>(Ar, spec.nev, spec.ncv));
        if (sparse && !rowmajor) return std::unique_ptr<ISvd>(new SvdAdaptor<SpMat>(As, spec.nev, spec.ncv));
        return std::unique_ptr<ISvd>(new SvdAdaptor<SpMatR>(Asr, spec.nev, spec.ncv));
    }
    void probe(std::vector<unsigned char>&) override {}
};

template <class W>
static std::unique_ptr<IWorld> mk(const WorldSpec& w) { return std::unique_ptr<IWorld>(new W(w)); }
static FamilyRegistration r1(F_SVD, S_DOUBLE, &mk<WorldSvd<double>>);
static FamilyRegistration r2(F_SVD, S_FLOAT, &mk<WorldSvd<float>>);
}  // namespace sim
