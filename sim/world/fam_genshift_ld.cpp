#include "fam_std.h"
namespace sim {
static FamilyRegistration r1(F_GENRSHIFT, S_LDOUBLE, &world_factory<WorldGenRShift<long double>>);
static FamilyRegistration r2(F_GENCSHIFT, S_LDOUBLE, &world_factory<WorldGenCShift<long double>>);
}
