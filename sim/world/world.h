// Type-erased world: the matrices, the REAL library operator wrappers built on them, the seam
// objects around those, and the solver objects. Family translation units implement these
// interfaces for concrete Spectra template instantiations.
#pragma once
#include <complex>
#include <memory>
#include <string>
#include <vector>
#include <Eigen/Core>
#include "../core/context.h"
#include "../core/plan.h"

namespace sim {

typedef std::complex<long double> cld;
typedef Eigen::Matrix<cld, Eigen::Dynamic, Eigen::Dynamic> MatL;
typedef Eigen::Matrix<cld, Eigen::Dynamic, 1> VecL;
typedef Eigen::Matrix<long double, Eigen::Dynamic, Eigen::Dynamic> RMatL;
typedef Eigen::Matrix<long double, Eigen::Dynamic, 1> RVecL;

// what the public accessors hand back
struct Snapshot
{
    long ret = -1;
    int info = -1;
    long niter = -1, nops = -1;
    long nvals = 0, vrows = 0, vcols = 0;
    std::vector<unsigned char> val_bytes, vec_bytes;  // raw bits, for the bitwise oracles
    VecL vals;                                        // widened copies, for the numeric oracles
    MatL vecs;
    uint64_t hash() const
    {
        Hasher h;
        h.u64((uint64_t) ret);
        h.u64((uint64_t) info);
        h.u64((uint64_t) niter);
        h.u64((uint64_t) nops);
        h.u64((uint64_t) nvals);
        h.u64((uint64_t) vrows);
        h.u64((uint64_t) vcols);
        h.bytes(val_bytes.data(), val_bytes.size());
        h.bytes(vec_bytes.data(), vec_bytes.size());
        return h.h;
    }
    bool same_bits(const Snapshot& o) const
    {
        return ret == o.ret && info == o.info && niter == o.niter && nops == o.nops && nvals == o.nvals &&
            vrows == o.vrows && vcols == o.vcols && val_bytes == o.val_bytes && vec_bytes == o.vec_bytes;
    }
};

struct ISolver
{
    virtual ~ISolver() {}
    virtual void init0() = 0;
    virtual void initv(const VecL& v) = 0;
    virtual long compute(int sel, long maxit, long double tol, int sort) = 0;
    virtual int info() const = 0;
    virtual long niter() const = 0;
    virtual long nops() const = 0;
    // fill nvals/val_bytes/vals
    virtual void values(Snapshot& s) const = 0;
    // fill vrows/vcols/vec_bytes/vecs; nvec < 0: eigenvectors(), else eigenvectors(nvec)
    virtual void vectors(Snapshot& s, long nvec) const = 0;
};

// partial SVD solver (no operator seam)
struct ISvd
{
    virtual ~ISvd() {}
    virtual long compute(long maxit, long double tol) = 0;
    virtual void singular_values(Snapshot& s) const = 0;          // into vals
    virtual void matrix_U(Snapshot& s, long k) = 0;               // into vecs
    virtual void matrix_V(Snapshot& s, long k) = 0;               // into vecs
};

// bare Krylov factorization object (Arnoldi / Lanczos) driven directly through its public methods
struct IKrylov
{
    virtual ~IKrylov() {}
    virtual void init(const VecL& v0) = 0;
    virtual void extend(long to) = 0;
    // implicit restart: apply the shifts (mode 0: exact Ritz values (unwanted end), 1: arbitrary reals, 2: conjugate pairs where
    // the class supports them) until the dimension is k, compress V, then extend to the full dimension again
    virtual void restart(long k, int mode, uint64_t seed) = 0;
    virtual long dim() const = 0;
    virtual long full_dim() const = 0;
    virtual bool lanczos() const = 0;
};

struct IWorld
{
    WorldSpec spec;
    SeamCtl ctlA, ctlB;
    MatL A, B;           // exactly the matrices the library sees, widened (B empty if the family has none)
    int scalar_digits = 0;
    long double eps = 0; // machine epsilon of the solver's real scalar type
    virtual ~IWorld() {}
    virtual std::unique_ptr<ISolver> make_solver() = 0;
    virtual std::unique_ptr<ISvd> make_svd() { return nullptr; }
    virtual std::unique_ptr<IKrylov> make_krylov() { return nullptr; }
    // operator probe: apply every supported method of the REAL wrappers (bypassing the seam) to a
    // fixed vector and append the raw output bytes. Only valid once a solver has been constructed
    // (shift wrappers are factorized by the solver constructor).
    virtual void probe(std::vector<unsigned char>& out) = 0;
    // apply one method of a REAL wrapper, bypassing the seam (harness use only: no event, no fault)
    // C20: another world object (own seam, own counters) around the SAME read-only product wrapper object;
    // null if this family's operator is not a shareable product wrapper. The owner must outlive the view.
    virtual std::unique_ptr<IWorld> share_operator(const WorldSpec& view_spec) { (void) view_spec; return nullptr; }
    virtual void apply_inner(int target, int method, const VecL& x, VecL& y) { (void) target; (void) method; (void) x; (void) y; }
};

// dispatch on (family, scalar); defined in world/registry.cpp, implemented by the family TUs
std::unique_ptr<IWorld> make_world(const WorldSpec& spec);
bool world_supported(int family, int scalar);

// factories implemented by the family translation units (null if that TU does not handle the spec)
typedef std::unique_ptr<IWorld> (*WorldFactory)(const WorldSpec&);
struct FamilyRegistration
{
    FamilyRegistration(int family, int scalar, WorldFactory f);
};

}  // namespace sim
