// Worlds of the generalized symmetric solver families (A x = lambda B x).
#pragma once
#include <Spectra/SymGEigsSolver.h>
#include <Spectra/SymGEigsShiftSolver.h>
#include <Spectra/MatOp/DenseSymMatProd.h>
#include <Spectra/MatOp/SparseSymMatProd.h>
#include <Spectra/MatOp/DenseCholesky.h>
#include <Spectra/MatOp/SparseCholesky.h>
#include <Spectra/MatOp/SparseRegularInverse.h>
#include <Spectra/MatOp/SymShiftInvert.h>
#include "family_impl.h"
#include "krylov_impl.h"

namespace sim {

template <class S>
struct WorldG : IWorld
{
    typedef Eigen::Matrix<S, Eigen::Dynamic, Eigen::Dynamic> Mat;
    typedef Eigen::SparseMatrix<S> SpMat;
    Mat Ad, Bd;
    SpMat As, Bs;
    OpBox<S> boxA, boxB;
    bool asparse, bsparse;
    explicit WorldG(const WorldSpec& w)
    {
        spec = w;
        MatL Al, Bl;
        gen_matrices(w, Al, Bl);
        Ad = narrow_mat<S>(Al);
        Bd = narrow_mat<S>(Bl);
        A = widen_mat(Ad);
        B = widen_mat(Bd);
        eps = ScalarInfo<S>::eps();
        ctlA.target = 0;
        ctlB.target = 1;
        asparse = (w.variant & 1) != 0;
        bsparse = (w.variant & 2) != 0;
        if (w.family == F_GREGINV) bsparse = true;  // SparseRegularInverse is the only wrapper for this mode
        // every wrapper of one matrix references the SAME triangle (variant bit 16: Upper for the first matrix, bit 32:
        // Upper for the second); the other triangle of what the wrappers are given is scribbled (family_impl.h)
        upperA = (w.variant & 16) != 0;
        upperB = (w.variant & 32) != 0;
        Ad = one_triangle_storage<S>(Ad, upperA, triangle_mode(w, 0));
        Bd = one_triangle_storage<S>(Bd, upperB, triangle_mode(w, 1));
        if (asparse) As = to_sparse(Ad);
        if (bsparse) Bs = to_sparse(Bd);
    }
    bool upperA = false, upperB = false;
    void probe(std::vector<unsigned char>& out) override
    {
        probe_inner(boxA.inner.get(), out);
        probe_inner(boxB.inner.get(), out);
    }
    void apply_inner(int target, int method, const VecL& x, VecL& y) override
    {
        apply_inner_impl<S>(target == 0 ? boxA.inner.get() : boxB.inner.get(), method, x, y);
    }
    // product wrapper for a symmetric matrix, referencing the triangle chosen for that matrix
    void product(OpBox<S>& box, SeamCtl* ctl, bool sparse, bool upper, const Mat& Md, const SpMat& Ms)
    {
        if (!sparse)
        {
            if (!upper) box.template emplace<Spectra::DenseSymMatProd<S>>(ctl, Md);
            else box.template emplace<Spectra::DenseSymMatProd<S, Eigen::Upper>>(ctl, Md);
        }
        else
        {
            if (!upper) box.template emplace<Spectra::SparseSymMatProd<S>>(ctl, Ms);
            else box.template emplace<Spectra::SparseSymMatProd<S, Eigen::Upper>>(ctl, Ms);
        }
    }
    void product_A() { product(boxA, &ctlA, asparse, upperA, Ad, As); }
    // the shift-and-invert operator on the pencil (first, second); variant bits 16 / 32 select the Upper triangle
    // of the first / second matrix
    template <int UA, int UB>
    void shift_invert_uplo(bool first_sparse, bool second_sparse, const Mat& Fd, const SpMat& Fs, const Mat& Gd, const SpMat& Gs)
    {
        using namespace Spectra;
        if (!first_sparse && !second_sparse) boxA.template emplace<SymShiftInvert<S, Eigen::Dense, Eigen::Dense, UA, UB>>(&ctlA, Fd, Gd);
        else if (!first_sparse && second_sparse) boxA.template emplace<SymShiftInvert<S, Eigen::Dense, Eigen::Sparse, UA, UB>>(&ctlA, Fd, Gs);
        else if (first_sparse && !second_sparse) boxA.template emplace<SymShiftInvert<S, Eigen::Sparse, Eigen::Dense, UA, UB>>(&ctlA, Fs, Gd);
        else boxA.template emplace<SymShiftInvert<S, Eigen::Sparse, Eigen::Sparse, UA, UB>>(&ctlA, Fs, Gs);
    }
    void shift_invert_A(bool first_sparse, bool second_sparse, const Mat& Fd, const SpMat& Fs, const Mat& Gd, const SpMat& Gs)
    {
        const bool ua = (spec.variant & 16) != 0, ub = (spec.variant & 32) != 0;
        if (!ua && !ub) shift_invert_uplo<Eigen::Lower, Eigen::Lower>(first_sparse, second_sparse, Fd, Fs, Gd, Gs);
        else if (ua && !ub) shift_invert_uplo<Eigen::Upper, Eigen::Lower>(first_sparse, second_sparse, Fd, Fs, Gd, Gs);
        else if (!ua && ub) shift_invert_uplo<Eigen::Lower, Eigen::Upper>(first_sparse, second_sparse, Fd, Fs, Gd, Gs);
        else shift_invert_uplo<Eigen::Upper, Eigen::Upper>(first_sparse, second_sparse, Fd, Fs, Gd, Gs);
    }
};

template <class S>
struct WorldGChol : WorldG<S>
{
    explicit WorldGChol(const WorldSpec& w) : WorldG<S>(w)
    {
        this->product_A();
        if (!this->bsparse)
        {
            if (!this->upperB) this->boxB.template emplace<Spectra::DenseCholesky<S>>(&this->ctlB, this->Bd);
            else this->boxB.template emplace<Spectra::DenseCholesky<S, Eigen::Upper>>(&this->ctlB, this->Bd);
        }
        else
        {
            if (!this->upperB) this->boxB.template emplace<Spectra::SparseCholesky<S>>(&this->ctlB, this->Bs);
            else this->boxB.template emplace<Spectra::SparseCholesky<S, Eigen::Upper>>(&this->ctlB, this->Bs);
        }
    }
    std::unique_ptr<ISolver> make_solver() override
    {
        typedef Spectra::SymGEigsSolver<SimOp<S>, SimOp<S>, Spectra::GEigsMode::Cholesky> Solver;
        return std::unique_ptr<ISolver>(new SolverAdaptor<Solver, S>(*this->boxA.op, *this->boxB.op, (Eigen::Index) this->spec.nev, (Eigen::Index) this->spec.ncv));
    }
};

template <class S>
struct WorldGRegInv : WorldG<S>
{
    // direct Krylov driver with the B-inner product: iterated operator inv(B) A, <x, y> = x'By
    typedef Spectra::SymGEigsRegInvOp<SimOp<S>, SimOp<S>> ModeOp;
    std::unique_ptr<ModeOp> mode_op;
    std::unique_ptr<IKrylov> make_krylov() override
    {
        if (!mode_op) mode_op.reset(new ModeOp(*this->boxA.op, *this->boxB.op));
        return std::unique_ptr<IKrylov>(new LanczosDriver<S, ModeOp, SimOp<S>>(*mode_op, *this->boxB.op, (long) this->spec.ncv));
    }
    explicit WorldGRegInv(const WorldSpec& w) : WorldG<S>(w)
    {
        this->product_A();
        if (!this->upperB) this->boxB.template emplace<Spectra::SparseRegularInverse<S>>(&this->ctlB, this->Bs);
        else this->boxB.template emplace<Spectra::SparseRegularInverse<S, Eigen::Upper>>(&this->ctlB, this->Bs);
    }
    std::unique_ptr<ISolver> make_solver() override
    {
        typedef Spectra::SymGEigsSolver<SimOp<S>, SimOp<S>, Spectra::GEigsMode::RegularInverse> Solver;
        return std::unique_ptr<ISolver>(new SolverAdaptor<Solver, S>(*this->boxA.op, *this->boxB.op, (Eigen::Index) this->spec.nev, (Eigen::Index) this->spec.ncv));
    }
};

template <class S, Spectra::GEigsMode Mode>
struct WorldGShift : WorldG<S>
{
    explicit WorldGShift(const WorldSpec& w) : WorldG<S>(w)
    {
        // op = inv(A - sigma B); B-operator = product with the SPD matrix of the pencil
        // (B for shift-invert and Cayley, K = A for buckling)
        this->shift_invert_A(this->asparse, this->bsparse, this->Ad, this->As, this->Bd, this->Bs);
        if (Mode == Spectra::GEigsMode::Buckling) this->product(this->boxB, &this->ctlB, this->asparse, this->upperA, this->Ad, this->As);
        else this->product(this->boxB, &this->ctlB, this->bsparse, this->upperB, this->Bd, this->Bs);
    }
    std::unique_ptr<ISolver> make_solver() override
    {
        typedef Spectra::SymGEigsShiftSolver<SimOp<S>, SimOp<S>, Mode> Solver;
        return std::unique_ptr<ISolver>(new SolverAdaptor<Solver, S>(typename SolverAdaptor<Solver, S>::Shift1(), (S) this->spec.sigma, *this->boxA.op, *this->boxB.op, (Eigen::Index) this->spec.nev, (Eigen::Index) this->spec.ncv));
    }
};

template <class W>
std::unique_ptr<IWorld> world_factory_g(const WorldSpec& w)
{
    return std::unique_ptr<IWorld>(new W(w));
}

}  // namespace sim
