#include "fam_std.h"
namespace sim {
static FamilyRegistration r1(F_HERM, S_DOUBLE, &world_factory<WorldHerm<std::complex<double>>>);
static FamilyRegistration r2(F_HERM, S_FLOAT, &world_factory<WorldHerm<std::complex<float>>>);
}
