// C20 only: DavidsonSymEigsSolver instantiated DIRECTLY on the library's product wrappers (no SimOp in between: the solver
// needs operator*(matrix) and operator()(i, j)), several solvers on private wrappers or on ONE shared const wrapper object -
// the literal configuration of the property. There is no operator seam here; the yield points of these tasks are the API
// boundaries and the seeded basic-block edges inside the library code (core/sched.cpp).
#include <Spectra/DavidsonSymEigsSolver.h>
#include <Spectra/MatOp/DenseSymMatProd.h>
#include <Spectra/MatOp/SparseSymMatProd.h>
#include "family_impl.h"

namespace sim {

template <class Op>
struct DavidsonAdaptor : ISolver
{
    Spectra::DavidsonSymEigsSolver<Op> s;
    DavidsonAdaptor(Op& op, Eigen::Index nev) : s(op, nev) {}
    void init0() override {}
    void initv(const VecL&) override {}
    long compute(int sel, long maxit, long double tol, int) override { return (long) s.compute((Spectra::SortRule) sel, (Eigen::Index) maxit, (double) tol); }
    int info() const override { return (int) s.info(); }
    long niter() const override { return (long) s.num_iterations(); }
    long nops() const override { return 0; }
    void values(Snapshot& out) const override
    {
        Eigen::VectorXd ev = s.eigenvalues();
        out.nvals = (long) ev.size();
        raw_bytes(ev, out.val_bytes);
        out.vals.resize(ev.size());
        for (long i = 0; i < ev.size(); i++) out.vals[i] = widen1(ev[i]);
    }
    void vectors(Snapshot& out, long nvec) const override
    {
        Eigen::MatrixXd V = s.eigenvectors();
        if (nvec >= 0 && nvec < V.cols()) V = V.leftCols(nvec).eval();
        out.vrows = (long) V.rows();
        out.vcols = (long) V.cols();
        raw_bytes(V, out.vec_bytes);
        out.vecs = widen_mat(V);
    }
};

struct WorldDavidson : IWorld
{
    typedef Spectra::DenseSymMatProd<double> DOp;
    typedef Spectra::SparseSymMatProd<double> SOp;
    Eigen::MatrixXd Ad;
    Eigen::SparseMatrix<double> As;
    std::shared_ptr<DOp> dop;
    std::shared_ptr<SOp> sop;
    bool sparse = false;
    explicit WorldDavidson(const WorldSpec& w)
    {
        spec = w;
        MatL Al, Bl;
        gen_matrices(w, Al, Bl);
        Ad = narrow_mat<double>(Al);
        A = widen_mat(Ad);
        eps = ScalarInfo<double>::eps();
        sparse = (w.variant & 1) != 0;
        if (sparse)
        {
            As = to_sparse(Ad);
            sop = std::make_shared<SOp>(As);
        }
        else
            dop = std::make_shared<DOp>(Ad);
        ctlA.n = ctlB.n = w.n;
    }
    // view: the SAME wrapper object, own nev
    WorldDavidson(const WorldDavidson& owner, const WorldSpec& w)
    {
        spec = w;
        A = owner.A;
        eps = owner.eps;
        sparse = owner.sparse;
        dop = owner.dop;
        sop = owner.sop;
        ctlA.n = ctlB.n = w.n;
    }
    std::unique_ptr<IWorld> share_operator(const WorldSpec& view_spec) override { return std::unique_ptr<IWorld>(new WorldDavidson(*this, view_spec)); }
    std::unique_ptr<ISolver> make_solver() override
    {
        if (sparse) return std::unique_ptr<ISolver>(new DavidsonAdaptor<SOp>(*sop, (Eigen::Index) spec.nev));
        return std::unique_ptr<ISolver>(new DavidsonAdaptor<DOp>(*dop, (Eigen::Index) spec.nev));
    }
    void probe(std::vector<unsigned char>&) override {}
};

static std::unique_ptr<IWorld> davidson_factory(const WorldSpec& w) { return std::unique_ptr<IWorld>(new WorldDavidson(w)); }
static FamilyRegistration rd(F_DAVIDSON, S_DOUBLE, &davidson_factory);

}  // namespace sim
