#include "ref.h"
#include <Eigen/LU>
#include <Eigen/Cholesky>
#include <cmath>
#include <limits>

namespace sim {

typedef long double ld;

void LinOp::from(const MatL& M)
{
    re = M.real();
    im = M.imag();
    cplx = (im.size() > 0) && (im.cwiseAbs().maxCoeff() != 0.0L);
    if (!cplx) im.resize(0, 0);
}

void LinOp::apply(const RVecL& xr, const RVecL& xi, RVecL& yr, RVecL& yi) const
{
    yr.noalias() = re * xr;
    yi.noalias() = re * xi;
    if (cplx)
    {
        yr.noalias() -= im * xi;
        yi.noalias() += im * xr;
    }
}

void LinOp::apply(const VecL& x, VecL& y) const
{
    RVecL xr = x.real(), xi = x.imag(), yr, yi;
    apply(xr, xi, yr, yi);
    y.resize(x.size());
    for (long i = 0; i < x.size(); i++) y[i] = cld(yr[i], yi[i]);
}

long double LinOp::norm2_upper() const
{
    if (empty()) return 0;
    const long r = re.rows(), c = re.cols();
    ld n1 = 0, ninf = 0;
    RVecL rowsum = RVecL::Zero(r);
    for (long j = 0; j < c; j++)
    {
        ld cs = 0;
        for (long i = 0; i < r; i++)
        {
            ld a = cplx ? std::hypot(re(i, j), im(i, j)) : std::abs(re(i, j));
            cs += a;
            rowsum[i] += a;
        }
        n1 = std::max(n1, cs);
    }
    ninf = rowsum.maxCoeff();
    return std::sqrt(n1 * ninf);
}

static MatL to_mat(const LinOp& L)
{
    MatL M(L.re.rows(), L.re.cols());
    for (long j = 0; j < M.cols(); j++)
        for (long i = 0; i < M.rows(); i++) M(i, j) = cld(L.re(i, j), L.cplx ? L.im(i, j) : 0.0L);
    return M;
}

static bool invert(const LinOp& M, LinOp& Minv)
{
    if (!M.cplx)
    {
        Eigen::FullPivLU<RMatL> lu(M.re);
        if (!lu.isInvertible()) return false;
        Minv.re = lu.inverse();
        Minv.im.resize(0, 0);
        Minv.cplx = false;
        return Minv.re.allFinite();
    }
    MatL C = to_mat(M);
    Eigen::FullPivLU<MatL> lu(C);
    if (!lu.isInvertible()) return false;
    MatL Ci = lu.inverse();
    Minv.from(Ci);
    return Ci.allFinite();
}

static LinOp real_op(const RMatL& R)
{
    LinOp L;
    L.re = R;
    L.cplx = false;
    return L;
}

void build_ref(const IWorld& w, WorldRef& r)
{
    if (r.built) return;
    r.built = true;
    r.family = w.spec.family;
    r.n = w.spec.n;
    r.eps = w.eps;
    r.A.from(w.A);
    r.normA = r.A.norm2_upper();
    const long n = r.n;
    const ld sig = (ld) w.spec.sigma, sigi = (ld) w.spec.sigmai;
    r.sigma = cld(sig, sigi);
    if (w.B.size() > 0)
    {
        r.B.from(w.B);
        r.normB = r.B.norm2_upper();
    }
    else
        r.normB = 1;
    switch (w.spec.family)
    {
        case F_SYMSHIFT:
        case F_GENRSHIFT:
        {
            RMatL F = r.A.re - sig * RMatL::Identity(n, n);
            r.F = real_op(F);
            break;
        }
        case F_GENCSHIFT:
        {
            MatL F = to_mat(r.A) - cld(sig, sigi) * MatL::Identity(n, n);
            r.F.from(F);
            r.F.cplx = true;
            if (r.F.im.size() == 0) r.F.im = F.imag();
            // (A - sigma)(A - conj sigma) = A^2 - 2 Re(sigma) A + |sigma|^2 I   (real)
            RMatL Q = r.A.re * r.A.re - 2 * sig * r.A.re + (sig * sig + sigi * sigi) * RMatL::Identity(n, n);
            r.Quad = real_op(Q);
            r.normQuad = r.Quad.norm2_upper();
            break;
        }
        case F_GCHOL:
        case F_GREGINV:
            r.P = r.B;
            r.F = r.B;  // the factorized / inverted matrix is B
            break;
        case F_GSHIFTINV:
        case F_GCAYLEY:
        {
            r.P = r.B;
            r.F = real_op(r.A.re - sig * r.B.re);
            break;
        }
        case F_GBUCK:
        {
            r.P = r.A;  // K
            r.F = real_op(r.A.re - sig * r.B.re);
            break;
        }
        default: break;
    }
    if (!r.F.empty())
    {
        r.normF = r.F.norm2_upper();
        if (invert(r.F, r.Finv))
            r.normFinv = r.Finv.norm2_upper();
        else
            r.normFinv = std::numeric_limits<ld>::infinity();
        r.kappaF = r.normF * r.normFinv;
    }
    if (!r.P.empty())
    {
        r.normP = r.P.norm2_upper();
        LinOp Pinv;
        if (invert(r.P, Pinv))
        {
            ld ni = Pinv.norm2_upper();
            r.muP = ni > 0 ? 1.0L / ni : 0.0L;
        }
        else
            r.muP = 0;
        r.kappaP = r.muP > 0 ? r.normP / r.muP : std::numeric_limits<ld>::infinity();
    }
}

long double resolvent_norm(const WorldRef& r, cld z)
{
    const long n = r.n;
    MatL M = to_mat(r.A) - z * MatL::Identity(n, n);
    Eigen::FullPivLU<MatL> lu(M);
    if (!lu.isInvertible()) return std::numeric_limits<ld>::infinity();
    MatL Mi = lu.inverse();
    if (!Mi.allFinite()) return std::numeric_limits<ld>::infinity();
    return Mi.norm();  // Frobenius >= 2-norm
}

void build_ref_op(IWorld& w, WorldRef& r)
{
    build_ref(w, r);
    if (r.op_built) return;
    r.op_built = true;
    const long n = r.n;
    const ld sig = (ld) w.spec.sigma;
    switch (w.spec.family)
    {
        case F_SYM:
        case F_HERM:
        case F_GEN:
            r.Op = r.A;
            break;
        case F_SYMSHIFT:
        case F_GENRSHIFT:
            r.Op = r.Finv;
            break;
        case F_GENCSHIFT:
            // Re[(A - sigma I)^{-1}] applied to real vectors
            r.Op = real_op(r.Finv.re);
            break;
        case F_GREGINV:
            r.Op = real_op(r.Finv.re * r.A.re);
            break;
        case F_GSHIFTINV:
            r.Op = real_op(r.Finv.re * r.B.re);
            break;
        case F_GBUCK:
            r.Op = real_op(r.Finv.re * r.A.re);
            break;
        case F_GCAYLEY:
            r.Op = real_op(r.Finv.re * (r.A.re + sig * r.B.re));
            break;
        case F_GCHOL:
        {
            const bool bsparse = (w.spec.variant & 2) != 0;
            if (!bsparse)
            {
                // dense Cholesky: B = L L', Op = inv(L) A inv(L')
                Eigen::LLT<RMatL> llt(r.B.re);
                RMatL L = llt.matrixL();
                RMatL Li = L.triangularView<Eigen::Lower>().solve(RMatL::Identity(n, n));
                r.Op = real_op(Li * r.A.re * Li.transpose());
            }
            else
            {
                // sparse Cholesky applies a fill-reducing permutation the harness does not know:
                // assemble Op = inv(L) A inv(L') column by column through the real wrappers
                r.op_independent = false;
                RMatL M(n, n);
                VecL e = VecL::Zero(n), t1, t2, t3;
                for (long j = 0; j < n; j++)
                {
                    e.setZero();
                    e[j] = cld(1, 0);
                    w.apply_inner(1, M_UPPER, e, t1);
                    w.apply_inner(0, M_PERFORM, t1, t2);
                    w.apply_inner(1, M_LOWER, t2, t3);
                    M.col(j) = t3.real();
                }
                r.Op = real_op(M);
            }
            // the Cholesky-mode iteration itself uses the plain inner product
            break;
        }
        default: break;
    }
    r.normOp = r.Op.norm2_upper();
}

}  // namespace sim
