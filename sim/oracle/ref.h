// Dense long-double reference quantities of a world, computed by the harness from the raw matrices
// (never through library wrappers): norms, the factorized matrix and its inverse, the iterated
// operator and the inner-product matrix. All norms are rigorous UPPER bounds
// (sqrt(||M||_1 ||M||_inf) >= ||M||_2), lambda_min is a LOWER bound, so every tolerance derived from
// them can only be looser than the exact one.
#pragma once
#include "../world/world.h"

namespace sim {

// complex matrix as a pair of real long-double matrices (avoids slow complex long double arithmetic)
struct LinOp
{
    RMatL re, im;
    bool cplx = false;
    long n() const { return re.rows(); }
    void from(const MatL& M);
    void apply(const RVecL& xr, const RVecL& xi, RVecL& yr, RVecL& yi) const;
    void apply(const VecL& x, VecL& y) const;
    long double norm2_upper() const;  // sqrt(||.||_1 ||.||_inf) of the complex matrix
    bool empty() const { return re.size() == 0; }
};

struct WorldRef
{
    bool built = false, op_built = false;
    int family = 0;
    long n = 0;
    long double eps = 0;
    cld sigma = 0;
    LinOp A, B;       // user matrices (B empty for standard problems)
    LinOp P;          // SPD matrix of the inner product (empty = identity)
    LinOp F, Finv;    // factorized matrix (A - sigma I, A - sigma B, B for Cholesky/RegInv) and its inverse
    LinOp Quad;       // complex shift: (A - sigma)(A - conj sigma)
    long double normA = 0, normB = 0, normF = 0, normFinv = 0, kappaF = 1;
    long double normP = 1, muP = 1, kappaP = 1;  // muP: lower bound of lambda_min(P)
    long double normQuad = 0;
    // iterated operator (Krylov observer), and its norm bound
    LinOp Op;
    long double normOp = 0;
    bool op_independent = true;  // false: Op was assembled through the library's own wrappers
};

void build_ref(const IWorld& w, WorldRef& r);
// builds r.Op; for the sparse-Cholesky variant the permutation of the library's factor is unknown to the
// harness, so Op is assembled column by column from the real wrappers (declared in op_independent)
void build_ref_op(IWorld& w, WorldRef& r);

// || (A - z I)^{-1} ||_F for complex z (upper bound of the 2-norm); +inf if singular
long double resolvent_norm(const WorldRef& r, cld z);

}  // namespace sim
