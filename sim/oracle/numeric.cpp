#include "oracles.h"
#include <cmath>
#include <cstdarg>
#include <cstdio>
#include <cstdlib>
#include <limits>

namespace sim {

typedef long double ld;

#if __has_include("../calib.h")
#include "../calib.h"
#else
// uncalibrated defaults: {C_res, C_norm, C_orth, C_fac, C_vorth} per family
static const long double SIM_CALIB_TABLE[F_COUNT][5] = {
    {1e3L, 1e3L, 1e3L, 1e3L, 1e3L}, {1e3L, 1e3L, 1e3L, 1e3L, 1e3L}, {1e3L, 1e3L, 1e3L, 1e3L, 1e3L}, {1e3L, 1e3L, 1e3L, 1e3L, 1e3L},
    {1e3L, 1e3L, 1e3L, 1e3L, 1e3L}, {1e3L, 1e3L, 1e3L, 1e3L, 1e3L}, {1e3L, 1e3L, 1e3L, 1e3L, 1e3L}, {1e3L, 1e3L, 1e3L, 1e3L, 1e3L},
    {1e3L, 1e3L, 1e3L, 1e3L, 1e3L}, {1e3L, 1e3L, 1e3L, 1e3L, 1e3L}, {1e3L, 1e3L, 1e3L, 1e3L, 1e3L}, {1e3L, 1e3L, 1e3L, 1e3L, 1e3L}};
#endif

static bool g_calibrating = false;
void set_calibrating(bool on) { g_calibrating = on; }

const Calib& Calib::get(int family)
{
    static Calib table[F_COUNT];
    static bool init = false;
    if (!init)
    {
        for (int f = 0; f < F_COUNT; f++)
        {
            table[f].C_res = SIM_CALIB_TABLE[f][0];
            table[f].C_norm = SIM_CALIB_TABLE[f][1];
            table[f].C_orth = SIM_CALIB_TABLE[f][2];
            table[f].C_fac = SIM_CALIB_TABLE[f][3];
            table[f].C_vorth = SIM_CALIB_TABLE[f][4];
        }
        if (const char* e = std::getenv("SIM_CALIB_ALL"))
        {
            const long double c = std::strtold(e, nullptr);
            for (int f = 0; f < F_COUNT; f++) table[f].C_res = table[f].C_norm = table[f].C_orth = table[f].C_fac = table[f].C_vorth = c;
        }
        init = true;
    }
    static Calib huge;
    if (g_calibrating)
    {
        huge.C_res = huge.C_norm = huge.C_orth = huge.C_fac = huge.C_vorth = 1e30L;
        return huge;
    }
    return table[(family >= 0 && family < F_COUNT) ? family : 0];
}

const char* numeric_prop_of_family(int family)
{
    switch (family)
    {
        case F_SYM:
        case F_HERM:
        case F_SYMSHIFT: return "C01";
        case F_GEN:
        case F_GENRSHIFT:
        case F_GENCSHIFT: return "C02";
        default: return "C03";
    }
}

static std::string fmt(const char* f, ...)
{
    char buf[512];
    va_list ap;
    va_start(ap, f);
    std::vsnprintf(buf, sizeof buf, f, ap);
    va_end(ap);
    return buf;
}

void check_eigenpairs(const IWorld& w, WorldRef& ref, const Snapshot& s, long double tol, const Calib& c,
                      const char* prop, int op_index, std::vector<Violation>& out, NumStats& st)
{
    build_ref(w, ref);
    const int fam = w.spec.family;
    const long n = ref.n;
    const ld eps = ref.eps;
    const ld eps23 = std::pow(eps, 2.0L / 3.0L);
    const bool hasB = !ref.B.empty();
    const bool hasP = !ref.P.empty();
    const long k = s.nvals;
    st.runs++;
    if (s.vcols != k || (k > 0 && s.vrows != n))
    {
        // shape relations are C05's subject; without matching shapes nothing can be paired here
        return;
    }
    const ld sig = ref.sigma.real(), sigi = ref.sigma.imag();
    // generalized shift modes: the B-orthonormal basis is built through solves with A - sigma B
    const ld kshift = (fam == F_GSHIFTINV || fam == F_GBUCK || fam == F_GCAYLEY) ? std::max<ld>(1, ref.kappaF) : 1.0L;
    std::vector<VecL> PX;  // P x_i (or x_i)
    for (long i = 0; i < k; i++)
    {
        const cld lam = s.vals[i];
        VecL x = s.vecs.col(i);
        VecL Ax, Bx, Px;
        ref.A.apply(x, Ax);
        if (hasB) ref.B.apply(x, Bx); else Bx = x;
        if (hasP) ref.P.apply(x, Px); else Px = x;
        PX.push_back(Px);
        VecL r = Ax - lam * Bx;
        const ld resid = r.norm();
        const ld xnormP = std::sqrt(std::abs(x.dot(Px)));  // dot conjugates the first argument
        const ld alam = std::abs(lam);
        // ---- tolerance term, derived from the library's own convergence test (DESIGN section 6) ----
        ld tolterm = 0, kfac = 1;
        bool degenerate = false;
        auto s_of = [&](ld anu) { return anu > 0 ? std::max(eps23, anu) / anu : std::numeric_limits<ld>::infinity(); };
        switch (fam)
        {
            case F_SYM:
            case F_HERM:
            case F_GEN:
                tolterm = tol * std::max(eps23, alam);
                kfac = 1;
                break;
            case F_SYMSHIFT:
            case F_GENRSHIFT:
            {
                const ld d = std::abs(lam - cld(sig, 0));
                const ld anu = d > 0 ? 1.0L / d : std::numeric_limits<ld>::infinity();
                tolterm = tol * s_of(anu) * ref.normF;
                kfac = ref.kappaF * std::max<ld>(1, ref.normFinv * d);
                break;
            }
            case F_GENCSHIFT:
            {
                const cld mu = lam - cld(sig, 0);
                const cld nu = mu / (mu * mu + cld(sigi * sigi, 0));
                if (std::abs(mu) == 0) { degenerate = true; break; }
                const cld lam2 = cld(sig, 0) + cld(sigi * sigi, 0) / mu;  // the rejected root
                const ld res = resolvent_norm(ref, lam2);
                if (!(res * ref.normA <= c.cap_degenerate)) { degenerate = true; break; }
                tolterm = tol * s_of(std::abs(nu)) * ref.normQuad * res;
                kfac = ref.kappaF * std::max<ld>(1, ref.normFinv * std::abs(lam - ref.sigma)) * std::max<ld>(1, res * ref.normA);
                break;
            }
            case F_GCHOL:
            case F_GREGINV:
                tolterm = tol * std::max(eps23, alam) * std::sqrt(ref.normB);
                kfac = ref.kappaP;
                break;
            case F_GSHIFTINV:
            {
                const ld d = std::abs(lam - cld(sig, 0));
                const ld anu = d > 0 ? 1.0L / d : std::numeric_limits<ld>::infinity();
                tolterm = tol * s_of(anu) * ref.normF / std::sqrt(ref.muP);
                kfac = ref.kappaF * ref.kappaP * std::max<ld>(1, ref.normFinv * ref.normB * d);
                break;
            }
            case F_GBUCK:
            {
                const ld d = std::abs(lam - cld(sig, 0));
                const ld anu = d > 0 ? alam / d : std::numeric_limits<ld>::infinity();
                tolterm = tol * s_of(anu) * std::abs(alam / sig) * ref.normF / std::sqrt(ref.muP);
                kfac = ref.kappaF * ref.kappaP * std::max<ld>(1, anu > 0 ? ref.normFinv * ref.normA / anu : 1);
                break;
            }
            case F_GCAYLEY:
            {
                const ld d = std::abs(lam - cld(sig, 0));
                const ld anu = d > 0 ? std::abs(lam + cld(sig, 0)) / d : std::numeric_limits<ld>::infinity();
                tolterm = tol * s_of(anu) * std::abs(lam + cld(sig, 0)) / (2 * std::abs(sig)) * ref.normF / std::sqrt(ref.muP);
                kfac = ref.kappaF * ref.kappaP * std::max<ld>(1, anu > 0 ? ref.normFinv * (ref.normA + std::abs(sig) * ref.normB) / anu : 1);
                break;
            }
            default: break;
        }
        st.pairs++;
        if (degenerate)
        {
            st.degenerate++;
            continue;
        }
        ld scaleM = ref.normA + alam * (hasB ? ref.normB : 1.0L);
        // buckling / Cayley: the exact residual identity carries the factor |lambda - sigma| / |sigma| on ||A - sigma B||
        if (fam == F_GBUCK || fam == F_GCAYLEY) scaleM = ref.normA * std::max<ld>(1, alam / std::abs(sig)) + alam * ref.normB;
        const ld unit = (ld) n * eps * scaleM * kfac;
        const ld bound = tolterm * (1 + 1e-6L) + c.C_res * unit;
        if (tolterm > 0) st.max_ratio_tol = std::max(st.max_ratio_tol, resid / tolterm);
        if (unit > 0) st.max_ratio_round = std::max(st.max_ratio_round, std::max<ld>(0, resid - tolterm) / unit);
        if (!(resid <= bound))
        {
            Violation v;
            v.prop = prop;
            v.clause = "residual";
            v.op_index = op_index;
            v.pair = i;
            v.ratio = bound > 0 ? resid / bound : std::numeric_limits<ld>::infinity();
            v.detail = fmt("pair %ld: lambda=(%.17Lg,%.17Lg) ||Ax-lambda Bx||=%.3Lg > bound %.3Lg (tol term %.3Lg at tol=%.3Lg, rounding allowance %.3Lg)",
                           i, lam.real(), lam.imag(), resid, bound, tolterm, tol, c.C_res * unit);
            out.push_back(v);
        }
        // ---- unit norm in the problem's inner product ----
        const ld nunit = (ld) n * eps * (hasP ? ref.kappaP : 1.0L) * kshift;
        const ld ndev = std::abs(xnormP - 1.0L);
        st.max_ratio_norm = std::max(st.max_ratio_norm, ndev / nunit);
        if (!(ndev <= c.C_norm * nunit))
        {
            Violation v;
            v.prop = prop;
            v.clause = "unit-norm";
            v.op_index = op_index;
            v.pair = i;
            v.ratio = ndev / (c.C_norm * nunit);
            v.detail = fmt("pair %ld: ||x||%s = %.17Lg, |dev| %.3Lg > %.3Lg", i, hasP ? "_P" : "", xnormP, ndev, c.C_norm * nunit);
            out.push_back(v);
        }
    }
    // ---- mutual orthonormality (symmetric / Hermitian / generalized families) ----
    if (!family_is_general(fam) && k > 1)
    {
        const ld ounit = (ld) n * eps * (hasP ? ref.kappaP : 1.0L) * kshift;
        ld worst = 0;
        long wi = 0, wj = 0;
        for (long i = 0; i < k; i++)
            for (long j = 0; j < i; j++)
            {
                const ld g = std::abs(VecL(s.vecs.col(i)).dot(PX[j]));
                if (!(g <= worst)) { worst = g; wi = i; wj = j; }
            }
        st.max_ratio_orth = std::max(st.max_ratio_orth, worst / ounit);
        if (!(worst <= c.C_orth * ounit))
        {
            Violation v;
            v.prop = prop;
            v.clause = "orthonormality";
            v.op_index = op_index;
            v.pair = wi;
            v.ratio = worst / (c.C_orth * ounit);
            v.detail = fmt("|<x_%ld, x_%ld>%s| = %.3Lg > %.3Lg", wi, wj, hasP ? "_P" : "", worst, c.C_orth * ounit);
            out.push_back(v);
        }
    }
}

}  // namespace sim
