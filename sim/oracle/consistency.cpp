#include "oracles.h"
#include <cmath>
#include <cstdarg>
#include <cstdio>

namespace sim {

typedef long double ld;

static std::string fmt(const char* f, ...)
{
    char buf[512];
    va_list ap;
    va_start(ap, f);
    std::vsnprintf(buf, sizeof buf, f, ap);
    va_end(ap);
    return buf;
}

static void add(std::vector<Violation>& out, int op_index, const char* clause, const std::string& detail)
{
    Violation v;
    v.prop = "C05";
    v.clause = clause;
    v.op_index = op_index;
    v.detail = detail;
    v.ratio = 1;
    out.push_back(v);
}

static ld sort_key(int rule, cld z)
{
    switch (rule)
    {
        case R_LM: return -std::abs(z);
        case R_LR: return -z.real();
        case R_LI: return -std::abs(z.imag());
        case R_LA: return -z.real();
        case R_SM: return std::abs(z);
        case R_SR: return z.real();
        case R_SI: return std::abs(z.imag());
        case R_SA: return z.real();
        default: return 0;
    }
}

void check_consistency(const ConsistencyInput& in, int op_index, std::vector<Violation>& out)
{
    const Snapshot& s = *in.full;
    // return value = eigenvalues().size() = eigenvectors().cols() <= nev
    if (in.ret != s.nvals || in.ret != s.vcols || in.ret > in.nev || in.ret < 0)
        add(out, op_index, "count", fmt("compute() returned %ld, eigenvalues().size()=%ld, eigenvectors().cols()=%ld, nev=%d", in.ret, s.nvals, s.vcols, in.nev));
    // status
    const bool success = (s.info == 0);
    if (success != (in.ret == in.nev) || (!success && s.info != 2))
        add(out, op_index, "status", fmt("info()=%d with %ld of %d pairs returned", s.info, in.ret, in.nev));
    // eigenvectors(m) = first min(m, count) columns
    if (in.partial)
    {
        const Snapshot& p = *in.partial;
        const long want = std::min(in.partial_m < 0 ? 0 : in.partial_m, s.vcols);
        bool ok = (p.vcols == want);
        if (ok && want > 0)
        {
            // same columns up to rounding: the product V*y is evaluated with a different number of columns, so
            // the low bits may differ (bitwise equality would demand more than the statement)
            ok = p.vrows == s.vrows && p.vecs.rows() == s.vecs.rows();
            if (ok)
            {
                const ld scale = std::max<ld>(s.vecs.cwiseAbs().maxCoeff(), 1e-300L);
                const ld diff = (p.vecs - s.vecs.leftCols(want)).cwiseAbs().maxCoeff();
                ok = diff <= 256 * (ld) std::max<long>(s.vrows, 1) * in.eps * scale;
            }
        }
        if (!ok)
            add(out, op_index, "nvec-prefix", fmt("eigenvectors(%ld) has %ld columns / differs from the first %ld columns of eigenvectors() (%ld columns)", in.partial_m, p.vcols, want, s.vcols));
    }
    // ordering named by the sorting argument (ties allowed)
    for (long i = 0; i + 1 < s.nvals; i++)
    {
        const ld k0 = sort_key(in.sort, s.vals[i]), k1 = sort_key(in.sort, s.vals[i + 1]);
        const ld slack = 16 * in.eps * std::max(std::abs(k0), std::abs(k1));
        if (!(k0 <= k1 + slack))
        {
            add(out, op_index, "ordering", fmt("values %ld and %ld out of order for sorting rule %s: (%.17Lg,%.17Lg) before (%.17Lg,%.17Lg)", i, i + 1, rule_name(in.sort),
                                                   s.vals[i].real(), s.vals[i].imag(), s.vals[i + 1].real(), s.vals[i + 1].imag()));
            break;
        }
    }
    // num_operations() = applications of the user's operator since init()
    {
        const long diff = in.seam_applications_since_init - s.nops;
        bool ok = (diff == 0);
        if (in.family == F_GENCSHIFT)
            ok = diff >= 0 && diff % 2 == 0 && diff <= 2 * (long) in.nev * in.computes_since_init;
        if (!ok)
            add(out, op_index, "num-operations", fmt("num_operations()=%ld but the operator was applied %ld times since init() (%ld compute() calls since init, nev=%d)", s.nops, in.seam_applications_since_init, in.computes_since_init, in.nev));
    }
    // at most maxit restarts
    if (in.restarts_in_call > std::max<long>(in.maxit, 0))
        add(out, op_index, "maxit", fmt("%ld restarts performed with maxit=%ld", in.restarts_in_call, in.maxit));
}

}  // namespace sim
