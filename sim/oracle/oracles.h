// Oracles shared by the checks: numeric bounds (C01-C03, C16), consistency relations (C05),
// Krylov invariant observer (C07).
#pragma once
#include <string>
#include <vector>
#include "../world/world.h"
#include "ref.h"

namespace sim {

struct Violation
{
    std::string prop;    // property id
    std::string clause;  // violated clause (part of the violation class)
    std::string detail;  // human readable
    int op_index = -1;
    long pair = -1;
    long double ratio = 0;  // observed / allowed
    double min_beta_rel = -1;  // near-breakdown indicator of the epoch the violation was observed in (-1: unknown)
    long expands = 0;
    long restarts = 0;    // implicit restarts since the last init() when the violation was observed
    Json params;          // mode-specific coordinates of the failing case (e.g. the fault position of a C14 violation)
    std::string cls() const { return prop + ":" + clause; }
};

// constants of the rounding-level allowances; the values in force are calibrated on the pinned tree
// (see calib.h, written by `sim --calibrate`) and quoted in every evidence file
struct Calib
{
    long double C_res = 1e3L;     // residual: multiples of n*eps*scale*kappa
    long double C_norm = 1e3L;    // | ||x|| - 1 |: multiples of n*eps*kappa(P)
    long double C_orth = 1e3L;    // |X'PX - I|: multiples of n*eps*kappa(P)
    long double C_fac = 1e3L;     // Krylov: ||Op V - V H - f e'||: multiples of k*eps*||Op||*kappa
    long double C_vorth = 1e3L;   // Krylov: |V'PV - I|, |V'Pf|
    long double cap_degenerate = 1e4L;
    // constants in force for a solver family (table in sim/calib.h, produced by `check.py calibrate`)
    // group 1 = rank-deficient matrices (the near-breakdown behaviour of the pinned tree has much heavier tails there)
    static const Calib& get(int family, int group = 0);
};

void set_calibrating(bool on);

struct NumStats
{
    long pairs = 0, degenerate = 0, runs = 0;
    long double max_ratio_tol = 0;    // residual / tol term
    long double max_ratio_round = 0;  // (residual - tol term)+ / rounding unit
    long double max_ratio_norm = 0;
    long double max_ratio_orth = 0;
    void merge(const NumStats& o)
    {
        pairs += o.pairs; degenerate += o.degenerate; runs += o.runs;
        max_ratio_tol = std::max(max_ratio_tol, o.max_ratio_tol);
        max_ratio_round = std::max(max_ratio_round, o.max_ratio_round);
        max_ratio_norm = std::max(max_ratio_norm, o.max_ratio_norm);
        max_ratio_orth = std::max(max_ratio_orth, o.max_ratio_orth);
    }
};

// every pair the accessors handed back must be a genuine eigenpair (C01 / C02 / C03 by family)
void check_eigenpairs(const IWorld& w, WorldRef& ref, const Snapshot& s, long double tol, const Calib& c,
                      const char* prop, int op_index, std::vector<Violation>& out, NumStats& st);

// property id whose numeric clauses cover a family
const char* numeric_prop_of_family(int family);

// C05: relations between return value, accessors, counters, ordering (the seam's own counts are passed in)
struct ConsistencyInput
{
    int family = 0, nev = 0;
    long ret = 0;
    long maxit = 0;
    int sort = 0;
    const Snapshot* full = nullptr;       // info/niter/nops/values/vectors()
    const Snapshot* partial = nullptr;    // eigenvectors(m) (may be null)
    long partial_m = 0;
    long seam_applications_since_init = 0;
    long restarts_in_call = 0;
    long computes_since_init = 0;
    long double eps = 0;
};
void check_consistency(const ConsistencyInput& in, int op_index, std::vector<Violation>& out);

// C07 observer
struct KrylovStats
{
    long checked[CK_COUNT] = {0, 0, 0, 0, 0};
    long breakdowns = 0;
    long double max_fac = 0, max_orth = 0, max_vf = 0;
    void merge(const KrylovStats& o)
    {
        for (int i = 0; i < CK_COUNT; i++) checked[i] += o.checked[i];
        breakdowns += o.breakdowns;
        max_fac = std::max(max_fac, o.max_fac);
        max_orth = std::max(max_orth, o.max_orth);
        max_vf = std::max(max_vf, o.max_vf);
    }
};
struct KrylovObserver : CheckpointObserver
{
    const WorldRef* ref = nullptr;
    bool lanczos = false;     // H must be real symmetric tridiagonal
    bool identity_ip = true;  // inner product of the iteration is the plain one
    const Calib* calib = nullptr;
    int op_index = -1;
    std::vector<Violation>* out = nullptr;
    KrylovStats stats;
    bool in_solver = true;    // checkpoints come from a solver run: factorize/restart checkpoints are at full dimension
    long expected_k = -1;     // advertised dimension expected at the next checkpoint of any kind (-1: unknown)
    long expect_kind[CK_COUNT] = {-1, -1, -1, -1, -1};  // ... per checkpoint kind (direct drivers)
    long max_restarts = 15;   // general family: no verdict beyond this many compressions since init (KF-arnoldi-restart-drift)
    bool skip_after_expand = false;  // direct Arnoldi driver (arbitrary shifts): no verdict after a breakdown restart
    bool general = false;     // Arnoldi (general) family: no verdict in the known-finding regimes (many restarts, breakdown)
    long compress_since_init = 0, expands_since_init = 0, skipped_known_regime = 0;
    void on_checkpoint(int kind, const spectra_verif::FacView& v) override;
};

}  // namespace sim
