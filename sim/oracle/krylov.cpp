#include "oracles.h"
#include <cmath>
#include <cstdarg>
#include <cstdio>
#include <cstdlib>

namespace sim {

typedef long double ld;

static std::string fmt(const char* f, ...)
{
    char buf[512];
    va_list ap;
    va_start(ap, f);
    std::vsnprintf(buf, sizeof buf, f, ap);
    va_end(ap);
    return buf;
}

// load a column-major rows x cols block (leading dimension ldim) of the library's scalar type
static void load(const void* p, int tag, long ldim, long rows, long cols, RMatL& re, RMatL& im)
{
    re.resize(rows, cols);
    im = RMatL::Zero(rows, cols);
    const bool cplx = tag >= 4;
    const int base = tag & 3;
    for (long j = 0; j < cols; j++)
        for (long i = 0; i < rows; i++)
        {
            const long idx = j * ldim + i;
            ld r = 0, m = 0;
            switch (base)
            {
                case 0:
                    if (cplx) { r = ((const float*) p)[2 * idx]; m = ((const float*) p)[2 * idx + 1]; }
                    else r = ((const float*) p)[idx];
                    break;
                case 1:
                    if (cplx) { r = ((const double*) p)[2 * idx]; m = ((const double*) p)[2 * idx + 1]; }
                    else r = ((const double*) p)[idx];
                    break;
                default:
                    if (cplx) { r = ((const long double*) p)[2 * idx]; m = ((const long double*) p)[2 * idx + 1]; }
                    else r = ((const long double*) p)[idx];
            }
            re(i, j) = r;
            im(i, j) = m;
        }
}

void KrylovObserver::on_checkpoint(int kind, const spectra_verif::FacView& v)
{
    if (!ref || !out) return;
    const WorldRef& R = *ref;
    const Calib& C = *calib;
    const long n = v.n, m = v.m;
    if (n != R.n || m <= 0) return;
    long k = (kind == CK_EXPAND) ? v.aux : v.k;
    if (kind == CK_INIT) compress_since_init = expands_since_init = 0;
    if (kind == CK_COMPRESS) compress_since_init++;
    if (kind == CK_EXPAND) expands_since_init++;
    // pinned-tree known finding of the general (Arnoldi) solvers: basis orthonormality drifts over many
    // implicit restarts; no verdict there (declared, DESIGN.md sections 11.3 and 12)
    // ... and a general solver whose Krylov space is the whole space (ncv == n) ends every factorization with a
    // residual that is pure rounding noise (KF-arnoldi-breakdown): no verdict for a full-dimension basis either
    if (general && (compress_since_init > max_restarts || (skip_after_expand && expands_since_init > 0) || (kind != CK_EXPAND && v.m == v.n && v.k == v.m)))
    {
        skipped_known_regime++;
        return;
    }
    auto viol = [&](const char* clause, ld ratio, const std::string& d) {
        Violation x;
        x.prop = "C07";
        x.clause = clause;
        x.op_index = op_index;
        x.ratio = ratio;
        x.detail = std::string("at checkpoint '") + checkpoint_name(kind) + "': " + d;
        out->push_back(x);
    };
    // advertised dimension
    if (kind != CK_EXPAND)
    {
        bool ok = (k >= 1 && k <= m);
        if (expect_kind[kind] >= 0) ok = ok && (k == expect_kind[kind]);
        else if (expected_k >= 0) ok = ok && (k == expected_k);
        else if (kind == CK_INIT) ok = ok && (k == 1);
        else if (in_solver && (kind == CK_FACTORIZE || kind == CK_RESTART)) ok = ok && (k == m);
        if (!ok)
        {
            viol("dimension", 1, fmt("subspace_dim()=%ld, allocated %ld, expected %ld", k, m, expect_kind[kind] >= 0 ? expect_kind[kind] : expected_k));
            return;
        }
    }
    if (k < 1 || k > m) return;
    stats.checked[kind]++;
    const bool hasP = !identity_ip && !R.P.empty();
    const ld eps = R.eps;
    const ld kap = std::max<ld>(1, R.kappaF) * (hasP ? R.kappaP : 1.0L);
    const ld scale = std::max(R.normOp, (ld) 1e-300L);
    RMatL Vr, Vi, Hr, Hi, fr, fi;
    load(v.V, v.scalar_tag, n, n, k, Vr, Vi);
    load(v.f, v.scalar_tag, n, n, 1, fr, fi);
    auto applyP = [&](const RMatL& xr, const RMatL& xi, RMatL& yr, RMatL& yi) {
        if (!hasP) { yr = xr; yi = xi; return; }
        yr = R.P.re * xr;
        yi = R.P.re * xi;
    };
    RMatL PVr, PVi, Pfr, Pfi;
    applyP(Vr, Vi, PVr, PVi);
    applyP(fr, fi, Pfr, Pfi);
    // G = V^H P V  (complex: (Vr - i Vi)^T (PVr + i PVi))
    RMatL Gr = Vr.transpose() * PVr + Vi.transpose() * PVi;
    RMatL Gi = Vr.transpose() * PVi - Vi.transpose() * PVr;
    ld gdev = 0;
    for (long j = 0; j < k; j++)
        for (long i = 0; i < k; i++)
            gdev = std::max(gdev, std::hypot(Gr(i, j) - (i == j ? 1.0L : 0.0L), Gi(i, j)));
    // generalized shift modes: the basis is built through solves with A - sigma B
    const ld kshift = (R.family == F_GSHIFTINV || R.family == F_GBUCK || R.family == F_GCAYLEY) ? std::max<ld>(1, R.kappaF) : 1.0L;
    const ld ounit = (ld) std::max<long>(k, 4) * eps * (hasP ? R.kappaP : 1.0L) * kshift * (ld) std::sqrt((double) n);
    stats.max_orth = std::max(stats.max_orth, gdev / ounit);
    if (std::getenv("SIM_TRACE_KRYLOV")) std::printf("trace %s k=%ld |V'PV-I|=%.3Lg beta=%.3Lg\n", checkpoint_name(kind), k, gdev, (ld) v.beta);
    if (!(gdev <= C.C_vorth * ounit))
        viol("basis-orthonormality", gdev / (C.C_vorth * ounit), fmt("max|V'%sV - I| = %.3Lg > %.3Lg (k=%ld)", hasP ? "P" : "", gdev, C.C_vorth * ounit, k));
    // V^H P f
    RMatL wr = Vr.transpose() * Pfr + Vi.transpose() * Pfi;
    RMatL wi = Vr.transpose() * Pfi - Vi.transpose() * Pfr;
    ld vf = 0;
    for (long i = 0; i < k; i++) vf = std::max(vf, std::hypot(wr(i, 0), wi(i, 0)));
    const ld fnormP = std::sqrt(std::abs((fr.transpose() * Pfr)(0, 0) + (fi.transpose() * Pfi)(0, 0)));
    if (kind == CK_EXPAND)
    {
        stats.breakdowns++;
        // new direction after a breakdown: nonzero and orthogonal to the existing basis
        const ld allowed = C.C_vorth * (ld) std::max<long>(k, 4) * eps * (hasP ? R.kappaP : 1.0L) * fnormP;
        if (!(fnormP > 0) || !(vf <= allowed))
            viol("breakdown-direction", allowed > 0 ? vf / allowed : 1e30L, fmt("new direction: ||f||=%.3Lg, max|V'%sf| = %.3Lg > %.3Lg (basis of %ld)", fnormP, hasP ? "P" : "", vf, allowed, k));
        return;
    }
    const ld funit = (ld) std::max<long>(k, 4) * eps * scale * kap * (ld) std::sqrt((double) n);
    stats.max_vf = std::max(stats.max_vf, vf / funit);
    if (!(vf <= C.C_vorth * funit))
        viol("residual-orthogonality", vf / (C.C_vorth * funit), fmt("max|V'%sf| = %.3Lg > %.3Lg (k=%ld, ||f||=%.3Lg)", hasP ? "P" : "", vf, C.C_vorth * funit, k, fnormP));
    // f_norm() equals ||f||_P
    if (!(std::abs((ld) v.beta - fnormP) <= C.C_vorth * funit))
        viol("f-norm", std::abs((ld) v.beta - fnormP) / (C.C_vorth * funit), fmt("f_norm()=%.17Lg but ||f||%s=%.17Lg", (ld) v.beta, hasP ? "_P" : "", fnormP));
    // H: k x k leading block
    load(v.H, v.scalar_tag, m, k, k, Hr, Hi);
    ld below = 0, asym = 0, imag = 0, band = 0;
    for (long j = 0; j < k; j++)
        for (long i = 0; i < k; i++)
        {
            const ld a = std::hypot(Hr(i, j), Hi(i, j));
            if (i > j + 1) below = std::max(below, a);
            if (lanczos)
            {
                if (j > i + 1) band = std::max(band, a);
                imag = std::max(imag, std::abs(Hi(i, j)));
                asym = std::max(asym, std::hypot(Hr(i, j) - Hr(j, i), Hi(i, j) + Hi(j, i)));
            }
        }
    const ld hunit = (ld) std::max<long>(k, 4) * eps * scale * kap;
    if (!(below <= C.C_fac * hunit))
        viol("hessenberg", below / (C.C_fac * hunit), fmt("entry below the subdiagonal of H: %.3Lg > %.3Lg", below, C.C_fac * hunit));
    if (lanczos && !(std::max(std::max(band, imag), asym) <= C.C_fac * hunit))
        viol("tridiagonal", std::max(std::max(band, imag), asym) / (C.C_fac * hunit), fmt("H not real symmetric tridiagonal: outside band %.3Lg, imaginary %.3Lg, asymmetry %.3Lg > %.3Lg", band, imag, asym, C.C_fac * hunit));
    // factorization residual: Op V - V H - f e_k'
    RMatL OVr, OVi;
    OVr = R.Op.re * Vr;
    OVi = R.Op.re * Vi;
    if (R.Op.cplx)
    {
        OVr -= R.Op.im * Vi;
        OVi += R.Op.im * Vr;
    }
    RMatL Rr = OVr - (Vr * Hr - Vi * Hi);
    RMatL Ri = OVi - (Vr * Hi + Vi * Hr);
    Rr.col(k - 1) -= fr;
    Ri.col(k - 1) -= fi;
    ld worst = 0;
    for (long j = 0; j < k; j++) worst = std::max(worst, std::sqrt(Rr.col(j).squaredNorm() + Ri.col(j).squaredNorm()));
    stats.max_fac = std::max(stats.max_fac, worst / funit);
    if (!(worst <= C.C_fac * funit))
        viol("factorization", worst / (C.C_fac * funit), fmt("max column norm of Op V - V H - f e' = %.3Lg > %.3Lg (k=%ld of %ld, ||Op||<=%.3Lg)", worst, C.C_fac * funit, k, m, scale));
}

}  // namespace sim
