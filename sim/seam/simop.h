// S1: the operator seam. SimOp<Scalar> is handed to the Spectra solvers as OpType / BOpType.
// It forwards every call to a REAL library wrapper (type-erased behind IInner) and, around each
// application, counts, logs an event, validates the buffers, consults the fault plan and yields to
// the scheduler. It never alters numerical results.
#pragma once
#include <type_traits>
#include <utility>
#include "../core/context.h"

namespace sim {

struct SeamUnsupported
{
    const char* method;
};

template <class S>
struct IInner
{
    typedef typename Eigen::NumTraits<S>::Real Real;
    virtual ~IInner() {}
    virtual long rows() const = 0;
    virtual long cols() const = 0;
    virtual void perform_op(const S*, S*) const { throw SeamUnsupported{"perform_op"}; }
    virtual void solve(const S*, S*) const { throw SeamUnsupported{"solve"}; }
    virtual void lower_triangular_solve(const S*, S*) const { throw SeamUnsupported{"lower_triangular_solve"}; }
    virtual void upper_triangular_solve(const S*, S*) const { throw SeamUnsupported{"upper_triangular_solve"}; }
    virtual void set_shift(const Real&) { throw SeamUnsupported{"set_shift(sigma)"}; }
    virtual void set_shift(const Real&, const Real&) { throw SeamUnsupported{"set_shift(sigmar, sigmai)"}; }
};

namespace detail {
template <class...> using void_t = void;
#define SIM_DETECT(name, expr)                                                         \
    template <class W, class S, class = void> struct name : std::false_type {};        \
    template <class W, class S> struct name<W, S, void_t<decltype(expr)>> : std::true_type {};
SIM_DETECT(has_perform, std::declval<const W&>().perform_op((const S*) nullptr, (S*) nullptr))
SIM_DETECT(has_solve, std::declval<const W&>().solve((const S*) nullptr, (S*) nullptr))
SIM_DETECT(has_lower, std::declval<const W&>().lower_triangular_solve((const S*) nullptr, (S*) nullptr))
SIM_DETECT(has_upper, std::declval<const W&>().upper_triangular_solve((const S*) nullptr, (S*) nullptr))
SIM_DETECT(has_shift1, std::declval<W&>().set_shift(std::declval<const typename Eigen::NumTraits<S>::Real&>()))
SIM_DETECT(has_shift2, std::declval<W&>().set_shift(std::declval<const typename Eigen::NumTraits<S>::Real&>(), std::declval<const typename Eigen::NumTraits<S>::Real&>()))
#undef SIM_DETECT
}  // namespace detail

// adapter around one real library wrapper object (held by reference: the world owns it)
template <class S, class W>
struct InnerOf : IInner<S>
{
    typedef typename Eigen::NumTraits<S>::Real Real;
    W& w;
    explicit InnerOf(W& w_) : w(w_) {}
    long rows() const override { return (long) w.rows(); }
    long cols() const override { return (long) w.cols(); }
    void perform_op(const S* x, S* y) const override
    {
        if constexpr (detail::has_perform<W, S>::value) w.perform_op(x, y);
        else throw SeamUnsupported{"perform_op"};
    }
    void solve(const S* x, S* y) const override
    {
        if constexpr (detail::has_solve<W, S>::value) w.solve(x, y);
        else throw SeamUnsupported{"solve"};
    }
    void lower_triangular_solve(const S* x, S* y) const override
    {
        if constexpr (detail::has_lower<W, S>::value) w.lower_triangular_solve(x, y);
        else throw SeamUnsupported{"lower_triangular_solve"};
    }
    void upper_triangular_solve(const S* x, S* y) const override
    {
        if constexpr (detail::has_upper<W, S>::value) w.upper_triangular_solve(x, y);
        else throw SeamUnsupported{"upper_triangular_solve"};
    }
    void set_shift(const Real& s) override
    {
        if constexpr (detail::has_shift1<W, S>::value) w.set_shift(s);
        else throw SeamUnsupported{"set_shift(sigma)"};
    }
    void set_shift(const Real& sr, const Real& si) override
    {
        if constexpr (detail::has_shift2<W, S>::value) w.set_shift(sr, si);
        else throw SeamUnsupported{"set_shift(sigmar, sigmai)"};
    }
};

template <class S>
class SimOp
{
public:
    using Scalar = S;
    typedef typename Eigen::NumTraits<S>::Real Real;

private:
    IInner<S>* m_inner;
    SeamCtl* m_ctl;

public:
    SimOp(IInner<S>* inner, SeamCtl* ctl) : m_inner(inner), m_ctl(ctl) {}

    Eigen::Index rows() const { return m_inner->rows(); }
    Eigen::Index cols() const { return m_inner->cols(); }

    void perform_op(const S* x, S* y) const
    {
        seam_before(m_ctl, M_PERFORM, x, y, sizeof(S));
        m_inner->perform_op(x, y);
        seam_after(m_ctl, M_PERFORM, y, sizeof(S));
    }
    void solve(const S* x, S* y) const
    {
        seam_before(m_ctl, M_SOLVE, x, y, sizeof(S));
        try
        {
            m_inner->solve(x, y);
        }
        catch (...)
        {
            m_ctl->native_throws++;  // the real wrapper itself failed (SparseRegularInverse: CG did not converge)
            throw;                   // re-thrown unchanged: the very same exception object
        }
        seam_after(m_ctl, M_SOLVE, y, sizeof(S));
    }
    void lower_triangular_solve(const S* x, S* y) const
    {
        seam_before(m_ctl, M_LOWER, x, y, sizeof(S));
        m_inner->lower_triangular_solve(x, y);
        seam_after(m_ctl, M_LOWER, y, sizeof(S));
    }
    void upper_triangular_solve(const S* x, S* y) const
    {
        seam_before(m_ctl, M_UPPER, x, y, sizeof(S));
        m_inner->upper_triangular_solve(x, y);
        seam_after(m_ctl, M_UPPER, y, sizeof(S));
    }
    void set_shift(const Real& s)
    {
        seam_before(m_ctl, M_SETSHIFT, nullptr, nullptr, sizeof(S));
        m_inner->set_shift(s);
        seam_after(m_ctl, M_SETSHIFT, nullptr, sizeof(S));
    }
    void set_shift(const Real& sr, const Real& si)
    {
        seam_before(m_ctl, M_SETSHIFT, nullptr, nullptr, sizeof(S));
        m_inner->set_shift(sr, si);
        seam_after(m_ctl, M_SETSHIFT, nullptr, sizeof(S));
    }
    // bypass for the harness (operator probe): does not count, log, fault or yield
    IInner<S>* inner() const { return m_inner; }
    SeamCtl* ctl() const { return m_ctl; }
};

}  // namespace sim
