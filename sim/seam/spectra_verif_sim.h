// Harness side of the guarded hook in /repo (include/Spectra/Util/VerifHook.h includes this header
// when SPECTRA_VERIF_SIM is defined). Turns a checkpoint inside the library into a simulator event.
// Observers only use the public const accessors of the factorization classes.
#ifndef SPECTRA_VERIF_SIM_H
#define SPECTRA_VERIF_SIM_H

#include <complex>

namespace spectra_verif {

struct FacView
{
    const char* kind;  // "init" | "factorize" | "compress" | "expand_basis" | "restart"
    const void* V;     // n x m, column major
    const void* H;     // m x m, column major
    const void* f;     // n
    long n, m, k;      // k = subspace_dim()
    long aux;          // expand_basis: number of basis columns the new direction is orthogonal to
    long double beta;  // f_norm()
    int scalar_tag;    // 0 float, 1 double, 2 long double; +4 if complex
};

// implemented by the harness (sim/core/context.cpp)
void on_event(const FacView& v);

template <class T> struct ScalarTag;
template <> struct ScalarTag<float> { static const int value = 0; };
template <> struct ScalarTag<double> { static const int value = 1; };
template <> struct ScalarTag<long double> { static const int value = 2; };
template <class T> struct ScalarTag<std::complex<T>> { static const int value = 4 + ScalarTag<T>::value; };

template <class Fac>
inline void event(const char* kind, const Fac& fac, long aux = -1)
{
    typedef typename std::remove_reference<decltype(fac.matrix_V())>::type::Scalar Scalar;
    FacView v;
    v.kind = kind;
    v.V = fac.matrix_V().data();
    v.H = fac.matrix_H().data();
    v.f = fac.vector_f().data();
    v.n = (long) fac.matrix_V().rows();
    v.m = (long) fac.matrix_V().cols();
    v.k = (long) fac.subspace_dim();
    v.aux = aux;
    v.beta = (long double) fac.f_norm();
    v.scalar_tag = ScalarTag<Scalar>::value;
    on_event(v);
}

}  // namespace spectra_verif

#define SPECTRA_VERIF_EVENT(kind, obj) ::spectra_verif::event(kind, obj)
#define SPECTRA_VERIF_EVENT_N(kind, obj, n) ::spectra_verif::event(kind, obj, (long) (n))

#endif
