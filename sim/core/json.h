// Minimal JSON value with parser and writer (replay files, result lines).
#pragma once
#include <cstdint>
#include <cstdio>
#include <cstdlib>
#include <cstring>
#include <map>
#include <stdexcept>
#include <string>
#include <utility>
#include <vector>

namespace sim {

class Json
{
public:
    enum Type { Null, Bool, Int, Real, Str, Arr, Obj };
    Type type = Null;
    bool b = false;
    long long i = 0;
    double d = 0;
    std::string s;
    std::vector<Json> a;
    std::vector<std::pair<std::string, Json>> o;

    Json() {}
    Json(bool v) : type(Bool), b(v) {}
    Json(int v) : type(Int), i(v) {}
    Json(long v) : type(Int), i(v) {}
    Json(long long v) : type(Int), i(v) {}
    Json(unsigned long v) : type(Str), s(std::to_string(v)) {}  // u64 as decimal string
    Json(unsigned long long v) : type(Str), s(std::to_string(v)) {}
    Json(double v) : type(Real), d(v) {}
    Json(const char* v) : type(Str), s(v) {}
    Json(const std::string& v) : type(Str), s(v) {}
    static Json array() { Json j; j.type = Arr; return j; }
    static Json object() { Json j; j.type = Obj; return j; }

    Json& push(const Json& v) { type = Arr; a.push_back(v); return *this; }
    Json& set(const std::string& k, const Json& v)
    {
        type = Obj;
        for (auto& kv : o)
            if (kv.first == k) { kv.second = v; return *this; }
        o.emplace_back(k, v);
        return *this;
    }
    bool has(const std::string& k) const
    {
        for (auto& kv : o) if (kv.first == k) return true;
        return false;
    }
    const Json& at(const std::string& k) const
    {
        for (auto& kv : o) if (kv.first == k) return kv.second;
        throw std::runtime_error("json: missing key " + k);
    }
    const Json& get(const std::string& k, const Json& dflt) const
    {
        for (auto& kv : o) if (kv.first == k) return kv.second;
        return dflt;
    }
    long long as_int() const
    {
        if (type == Int) return i;
        if (type == Real) return (long long) d;
        if (type == Bool) return b;
        if (type == Str) return std::strtoll(s.c_str(), nullptr, 10);
        throw std::runtime_error("json: not an int");
    }
    uint64_t as_u64() const
    {
        if (type == Str) return std::strtoull(s.c_str(), nullptr, 10);
        if (type == Int) return (uint64_t) i;
        throw std::runtime_error("json: not a u64");
    }
    double as_real() const
    {
        if (type == Real) return d;
        if (type == Int) return (double) i;
        if (type == Str) return std::strtod(s.c_str(), nullptr);
        throw std::runtime_error("json: not a number");
    }
    bool as_bool() const { return type == Bool ? b : as_int() != 0; }
    const std::string& as_str() const
    {
        if (type != Str) throw std::runtime_error("json: not a string");
        return s;
    }
    long long geti(const std::string& k, long long dflt) const { return has(k) ? at(k).as_int() : dflt; }
    double getd(const std::string& k, double dflt) const { return has(k) ? at(k).as_real() : dflt; }
    std::string gets(const std::string& k, const std::string& dflt) const { return has(k) ? at(k).as_str() : dflt; }

    // ---- writer ----
    static void esc(std::string& out, const std::string& v)
    {
        out += '"';
        for (char c : v)
        {
            switch (c)
            {
                case '"': out += "\\\""; break;
                case '\\': out += "\\\\"; break;
                case '\n': out += "\\n"; break;
                case '\t': out += "\\t"; break;
                case '\r': out += "\\r"; break;
                default:
                    if ((unsigned char) c < 0x20 || (unsigned char) c >= 0x7f)
                    {
                        char buf[8];
                        std::snprintf(buf, sizeof buf, "\\u%04x", (unsigned) (unsigned char) c);
                        out += buf;
                    }
                    else
                        out += c;
            }
        }
        out += '"';
    }
    void dump_to(std::string& out) const
    {
        char buf[64];
        switch (type)
        {
            case Null: out += "null"; break;
            case Bool: out += b ? "true" : "false"; break;
            case Int: std::snprintf(buf, sizeof buf, "%lld", i); out += buf; break;
            case Real:
                if (d != d || d > 1.7e308 || d < -1.7e308)
                {
                    // JSON has no NaN/Inf; keep the information as a string
                    std::snprintf(buf, sizeof buf, "\"%g\"", d);
                }
                else
                {
                    std::snprintf(buf, sizeof buf, "%.17g", d);
                    if (!std::strpbrk(buf, ".eEn")) std::strcat(buf, ".0");
                }
                out += buf;
                break;
            case Str: esc(out, s); break;
            case Arr:
                out += '[';
                for (size_t k = 0; k < a.size(); k++)
                {
                    if (k) out += ',';
                    a[k].dump_to(out);
                }
                out += ']';
                break;
            case Obj:
                out += '{';
                for (size_t k = 0; k < o.size(); k++)
                {
                    if (k) out += ',';
                    esc(out, o[k].first);
                    out += ':';
                    o[k].second.dump_to(out);
                }
                out += '}';
                break;
        }
    }
    std::string dump() const
    {
        std::string out;
        dump_to(out);
        return out;
    }

    // ---- parser ----
    static Json parse(const std::string& text)
    {
        size_t p = 0;
        Json j = parse_value(text, p);
        skip(text, p);
        if (p != text.size()) throw std::runtime_error("json: trailing characters");
        return j;
    }

private:
    static void skip(const std::string& t, size_t& p)
    {
        while (p < t.size() && (t[p] == ' ' || t[p] == '\n' || t[p] == '\t' || t[p] == '\r')) p++;
    }
    static Json parse_value(const std::string& t, size_t& p)
    {
        skip(t, p);
        if (p >= t.size()) throw std::runtime_error("json: unexpected end");
        char c = t[p];
        if (c == '{')
        {
            Json j = object();
            p++;
            skip(t, p);
            if (t[p] == '}') { p++; return j; }
            for (;;)
            {
                skip(t, p);
                Json k = parse_string(t, p);
                skip(t, p);
                if (t[p] != ':') throw std::runtime_error("json: expected ':'");
                p++;
                Json v = parse_value(t, p);
                j.o.emplace_back(k.s, v);
                skip(t, p);
                if (t[p] == ',') { p++; continue; }
                if (t[p] == '}') { p++; break; }
                throw std::runtime_error("json: expected ',' or '}'");
            }
            return j;
        }
        if (c == '[')
        {
            Json j = array();
            p++;
            skip(t, p);
            if (t[p] == ']') { p++; return j; }
            for (;;)
            {
                j.a.push_back(parse_value(t, p));
                skip(t, p);
                if (t[p] == ',') { p++; continue; }
                if (t[p] == ']') { p++; break; }
                throw std::runtime_error("json: expected ',' or ']'");
            }
            return j;
        }
        if (c == '"') return parse_string(t, p);
        if (!t.compare(p, 4, "true")) { p += 4; return Json(true); }
        if (!t.compare(p, 5, "false")) { p += 5; return Json(false); }
        if (!t.compare(p, 4, "null")) { p += 4; return Json(); }
        // number
        size_t q = p;
        bool real = false;
        while (q < t.size() && (std::strchr("+-0123456789.eE", t[q]) != nullptr))
        {
            if (t[q] == '.' || t[q] == 'e' || t[q] == 'E') real = true;
            q++;
        }
        if (q == p) throw std::runtime_error("json: bad token");
        std::string num = t.substr(p, q - p);
        p = q;
        if (real) return Json(std::strtod(num.c_str(), nullptr));
        return Json((long long) std::strtoll(num.c_str(), nullptr, 10));
    }
    static Json parse_string(const std::string& t, size_t& p)
    {
        if (t[p] != '"') throw std::runtime_error("json: expected string");
        p++;
        std::string out;
        while (p < t.size() && t[p] != '"')
        {
            if (t[p] == '\\')
            {
                p++;
                switch (t[p])
                {
                    case 'n': out += '\n'; break;
                    case 't': out += '\t'; break;
                    case 'r': out += '\r'; break;
                    case 'u':
                    {
                        unsigned v = (unsigned) std::strtoul(t.substr(p + 1, 4).c_str(), nullptr, 16);
                        out += (char) v;
                        p += 4;
                        break;
                    }
                    default: out += t[p];
                }
                p++;
            }
            else
                out += t[p++];
        }
        p++;
        return Json(out);
    }
};

}  // namespace sim
