// Plan = complete description of one simulated execution (world + scripts + faults + schedule).
// A plan is generated from one integer (run seed) or read from a replay file.
#pragma once
#include <string>
#include <vector>
#include "json.h"
#include "prng.h"

namespace sim {

// ---------------- enumerations (stable integers: they appear in replay files) -----------------
enum Family
{
    F_SYM = 0,        // SymEigsSolver
    F_HERM = 1,       // HermEigsSolver (complex Hermitian)
    F_SYMSHIFT = 2,   // SymEigsShiftSolver
    F_GEN = 3,        // GenEigsSolver
    F_GENRSHIFT = 4,  // GenEigsRealShiftSolver
    F_GENCSHIFT = 5,  // GenEigsComplexShiftSolver
    F_GCHOL = 6,      // SymGEigsSolver<Cholesky>
    F_GREGINV = 7,    // SymGEigsSolver<RegularInverse>
    F_GSHIFTINV = 8,  // SymGEigsShiftSolver<ShiftInvert>
    F_GBUCK = 9,      // SymGEigsShiftSolver<Buckling>
    F_GCAYLEY = 10,   // SymGEigsShiftSolver<Cayley>
    F_SVD = 11,       // PartialSVDSolver
    F_DAVIDSON = 12,  // DavidsonSymEigsSolver directly on Dense/SparseSymMatProd (C20 only: no operator seam)
    F_COUNT = 13
};
inline const char* family_name(int f)
{
    static const char* n[] = {"SymEigsSolver", "HermEigsSolver", "SymEigsShiftSolver", "GenEigsSolver",
                              "GenEigsRealShiftSolver", "GenEigsComplexShiftSolver", "SymGEigsSolver<Cholesky>",
                              "SymGEigsSolver<RegularInverse>", "SymGEigsShiftSolver<ShiftInvert>",
                              "SymGEigsShiftSolver<Buckling>", "SymGEigsShiftSolver<Cayley>", "PartialSVDSolver", "DavidsonSymEigsSolver"};
    return (f >= 0 && f < F_COUNT) ? n[f] : "?";
}
inline bool family_is_general(int f) { return f == F_GEN || f == F_GENRSHIFT || f == F_GENCSHIFT; }
inline bool family_is_generalized(int f) { return f >= F_GCHOL && f <= F_GCAYLEY; }
inline bool family_has_B(int f) { return family_is_generalized(f); }

enum ScalarKind { S_FLOAT = 0, S_DOUBLE = 1, S_LDOUBLE = 2 };
inline const char* scalar_name(int s)
{
    static const char* n[] = {"float", "double", "long double"};
    return (s >= 0 && s < 3) ? n[s] : "?";
}

// SortRule values of Spectra
enum Rule { R_LM = 0, R_LR = 1, R_LI = 2, R_LA = 3, R_SM = 4, R_SR = 5, R_SI = 6, R_SA = 7, R_BE = 8 };
inline const char* rule_name(int r)
{
    static const char* n[] = {"LargestMagn", "LargestReal", "LargestImag", "LargestAlge", "SmallestMagn",
                              "SmallestReal", "SmallestImag", "SmallestAlge", "BothEnds"};
    return (r >= 0 && r < 9) ? n[r] : "?";
}

// matrix classes (workload)
enum MClass
{
    M_RANDOM = 0,      // dense random (symmetrised for symmetric families)
    M_SEPARATED = 1,   // Q diag(d) Q' with well separated d
    M_CLUSTERED = 2,   // Q diag(d) Q' with clusters
    M_GRADED = 3,      // Q diag(d) Q' with geometrically graded d
    M_SPARSEPAT = 4,   // random sparse pattern (+diagonal)
    M_BLOCKDIAG = 5,   // block diagonal: invariant subspaces aligned with coordinates
    M_LOWRANK = 6,     // rank < ncv
    M_NORMAL = 7,      // (general) normal matrix with complex spectrum
    M_TRIANGULAR = 8,  // (general) upper triangular, non-normal
    M_REPEATED = 9,    // repeated eigenvalues
    M_COUNT = 10
};
inline const char* mclass_name(int m)
{
    static const char* n[] = {"random", "separated", "clustered", "graded", "sparse", "block-diag", "low-rank",
                              "normal", "triangular", "repeated"};
    return (m >= 0 && m < M_COUNT) ? n[m] : "?";
}

// start-vector classes
enum VClass
{
    V_GENERIC = 0,
    V_EIGLIKE = 1,    // close to one eigenvector (plus small noise)
    V_INVARIANT = 2,  // inside a small invariant subspace (exact for block-diag worlds)
    V_TINY = 3,       // generic with norm ~1e-100 (1e-12 for float)
    V_HUGE = 4,       // generic with norm ~1e+100 (1e+12 for float)
    V_COORD = 5,      // a coordinate vector
    V_WARM = 6        // warm start: an exact eigenvector (long double) plus relative noise 1e-12..1e-6; generated for nev == 1 only
};

enum OpKind
{
    OP_INIT0 = 0,     // init()
    OP_INITV = 1,     // init(v)
    OP_INITZERO = 2,  // init(zero vector): rejected call
    OP_COMPUTE = 3,   // compute(sel, maxit, tol, sort)
    OP_READ = 4,      // accessor reads
    OP_PROBE = 5,     // operator probe (harness side, does not go through the seam)
    OP_SVDCOMPUTE = 6, // PartialSVDSolver::compute(maxit, tol)
    OP_KEXTEND = 7,    // direct Krylov driver: factorize_from(dim, maxit)   (maxit = target dimension)
    OP_KRESTART = 8    // direct Krylov driver: implicit restart down to dimension maxit with shifts of mode sel, then re-extend
};
inline const char* opkind_name(int k)
{
    static const char* n[] = {"init", "init_v", "init_zero", "compute", "read", "probe", "svd_compute", "k_extend", "k_restart"};
    return (k >= 0 && k < 9) ? n[k] : "?";
}

// accessor bits for OP_READ
enum ReadBits { RD_INFO = 1, RD_NITER = 2, RD_NOPS = 4, RD_VALUES = 8, RD_VECTORS = 16, RD_VECTORS_N = 32 };

// fault types (what is thrown)
// FT_POISON: the operator does not throw but silently returns a vector of NaN at that application (C14, RegularInverse
// worlds: the library's own SparseRegularInverse::solve() then fails to converge and throws - a B-operator failure that
// originates in real library code, the path the property text names)
enum FaultType { FT_SIMFAULT = 0, FT_RUNTIME = 1, FT_INT = 2, FT_POISON = 3 };

struct Fault
{
    int target = 0;  // 0 = A operator, 1 = B operator
    long at = 1;     // 1-based application index inside the API call it is attached to,
                     // interpreted modulo (applications of that call + 1) when `wrap` is set
    int type = FT_SIMFAULT;
    bool wrap = true;
    Json to_json() const
    {
        Json j = Json::object();
        j.set("target", target == 0 ? "A" : "B").set("at", at).set("type", type).set("wrap", wrap);
        return j;
    }
    static Fault from_json(const Json& j)
    {
        Fault f;
        f.target = j.gets("target", "A") == "B" ? 1 : 0;
        f.at = (long) j.geti("at", 1);
        f.type = (int) j.geti("type", 0);
        f.wrap = j.has("wrap") ? j.at("wrap").as_bool() : true;
        return f;
    }
};

struct Op
{
    int kind = OP_INIT0;
    // compute
    int sel = R_LM, sort = R_LA;
    long maxit = 1000;
    double tol = 1e-10;
    // init_v
    int vclass = V_GENERIC;
    uint64_t vseed = 0;
    // read
    int readmask = 0;
    long nvec = 0;
    std::vector<Fault> faults;

    Json to_json() const
    {
        Json j = Json::object();
        j.set("op", opkind_name(kind));
        if (kind == OP_COMPUTE)
            j.set("sel", sel).set("maxit", maxit).set("tol", tol).set("sort", sort);
        if (kind == OP_SVDCOMPUTE)
            j.set("maxit", maxit).set("tol", tol);
        if (kind == OP_KEXTEND)
            j.set("maxit", maxit);
        if (kind == OP_KRESTART)
            j.set("maxit", maxit).set("sel", sel).set("vseed", (unsigned long long) vseed);
        if (kind == OP_INITV)
            j.set("vclass", vclass).set("vseed", (unsigned long long) vseed);
        if (kind == OP_READ)
            j.set("mask", readmask).set("nvec", nvec);
        if (!faults.empty())
        {
            Json fa = Json::array();
            for (auto& f : faults) fa.push(f.to_json());
            j.set("faults", fa);
        }
        return j;
    }
    static Op from_json(const Json& j)
    {
        Op o;
        std::string k = j.at("op").as_str();
        o.kind = -1;
        for (int i = 0; i < 9; i++)
            if (k == opkind_name(i)) o.kind = i;
        if (o.kind < 0) throw std::runtime_error("plan: unknown op " + k);
        o.sel = (int) j.geti("sel", R_LM);
        o.sort = (int) j.geti("sort", R_LA);
        o.maxit = (long) j.geti("maxit", 1000);
        o.tol = j.getd("tol", 1e-10);
        o.vclass = (int) j.geti("vclass", 0);
        o.vseed = j.has("vseed") ? j.at("vseed").as_u64() : 0;
        o.readmask = (int) j.geti("mask", 0);
        o.nvec = (long) j.geti("nvec", 0);
        if (j.has("faults"))
            for (auto& f : j.at("faults").a) o.faults.push_back(Fault::from_json(f));
        return o;
    }
};

struct WorldSpec
{
    int family = F_SYM;
    int scalar = S_DOUBLE;
    int variant = 0;  // bit0: A sparse, bit1: B sparse, bit2: Upper triangle, bit3: row-major (where supported)
    int n = 20, nev = 3, ncv = 8;
    int m_rows = 0;   // SVD only: rows (n = cols)
    int mclass = M_RANDOM;
    uint64_t mseed = 1;
    double scale = 1.0;
    double sigma = 0.0, sigmai = 0.0;
    double kappaB = 10.0;
    int rank = 0;    // low-rank worlds
    int nblock = 0;  // block-diag worlds: size of the leading block

    Json to_json() const
    {
        Json j = Json::object();
        j.set("family", family).set("family_name", family_name(family)).set("scalar", scalar).set("variant", variant);
        j.set("n", n).set("nev", nev).set("ncv", ncv).set("m_rows", m_rows);
        j.set("mclass", mclass).set("mclass_name", mclass_name(mclass)).set("mseed", (unsigned long long) mseed);
        j.set("scale", scale).set("sigma", sigma).set("sigmai", sigmai).set("kappaB", kappaB);
        j.set("rank", rank).set("nblock", nblock);
        return j;
    }
    static WorldSpec from_json(const Json& j)
    {
        WorldSpec w;
        w.family = (int) j.geti("family", 0);
        w.scalar = (int) j.geti("scalar", 1);
        w.variant = (int) j.geti("variant", 0);
        w.n = (int) j.geti("n", 20);
        w.nev = (int) j.geti("nev", 3);
        w.ncv = (int) j.geti("ncv", 8);
        w.m_rows = (int) j.geti("m_rows", 0);
        w.mclass = (int) j.geti("mclass", 0);
        w.mseed = j.has("mseed") ? j.at("mseed").as_u64() : 1;
        w.scale = j.getd("scale", 1.0);
        w.sigma = j.getd("sigma", 0.0);
        w.sigmai = j.getd("sigmai", 0.0);
        w.kappaB = j.getd("kappaB", 10.0);
        w.rank = (int) j.geti("rank", 0);
        w.nblock = (int) j.geti("nblock", 0);
        return w;
    }
};

struct TaskSpec
{
    WorldSpec w;
    std::vector<Op> script;
    int share = -1;  // C20: index of the task whose product wrapper this task shares (-1: private)
    Json to_json() const
    {
        Json j = Json::object();
        j.set("world", w.to_json());
        Json s = Json::array();
        for (auto& o : script) s.push(o.to_json());
        j.set("script", s).set("share", share);
        return j;
    }
    static TaskSpec from_json(const Json& j)
    {
        TaskSpec t;
        t.w = WorldSpec::from_json(j.at("world"));
        for (auto& o : j.at("script").a) t.script.push_back(Op::from_json(o));
        t.share = (int) j.geti("share", -1);
        return t;
    }
};

struct Plan
{
    std::string prop;     // property id the plan was generated for
    std::string mode;     // engine mode: hist | fault | sched | svd | krylov
    uint64_t run_seed = 0;
    std::vector<TaskSpec> tasks;
    // schedule: either a policy + seed (generated), or the explicit list of chosen task ids per yield
    int policy = 0;
    double policy_p = 0.1;
    uint64_t sched_seed = 0;
    bool explicit_schedule = false;
    std::vector<int> schedule;
    // pre-emption at basic-block edges of the library code (C20, TSan build): mean gap in edges (0 = off), or - in a
    // replay - the explicit gaps in global draw order
    long edge_gap = 0;
    std::vector<long> gaps;
    // free-form parameters of the mode (e.g. the fault position of a C14 replay)
    Json params = Json::object();

    Json to_json() const
    {
        Json j = Json::object();
        j.set("prop", prop).set("mode", mode).set("run_seed", (unsigned long long) run_seed);
        Json t = Json::array();
        for (auto& x : tasks) t.push(x.to_json());
        j.set("tasks", t);
        j.set("policy", policy).set("policy_p", policy_p).set("sched_seed", (unsigned long long) sched_seed);
        j.set("explicit_schedule", explicit_schedule);
        if (explicit_schedule)
        {
            Json s = Json::array();
            for (int x : schedule) s.push(x);
            j.set("schedule", s);
            Json g = Json::array();
            for (long x : gaps) g.push(x);
            j.set("gaps", g);
        }
        j.set("edge_gap", edge_gap);
        j.set("params", params);
        return j;
    }
    static Plan from_json(const Json& j)
    {
        Plan p;
        p.prop = j.gets("prop", "");
        p.mode = j.gets("mode", "hist");
        p.run_seed = j.has("run_seed") ? j.at("run_seed").as_u64() : 0;
        for (auto& x : j.at("tasks").a) p.tasks.push_back(TaskSpec::from_json(x));
        p.policy = (int) j.geti("policy", 0);
        p.policy_p = j.getd("policy_p", 0.1);
        p.sched_seed = j.has("sched_seed") ? j.at("sched_seed").as_u64() : 0;
        p.explicit_schedule = j.has("explicit_schedule") && j.at("explicit_schedule").as_bool();
        if (j.has("schedule"))
            for (auto& x : j.at("schedule").a) p.schedule.push_back((int) x.as_int());
        p.edge_gap = (long) j.geti("edge_gap", 0);
        if (j.has("gaps"))
            for (auto& x : j.at("gaps").a) p.gaps.push_back((long) x.as_int());
        if (j.has("params")) p.params = j.at("params");
        return p;
    }
};

}  // namespace sim
