// Context, seam entry points, hook sink and sanitizer callbacks.
#include "context.h"
#include <atomic>
#include <cstring>
#include <limits>

namespace sim {

static thread_local TaskCtx* t_ctx = nullptr;
TaskCtx*& current_ctx() { return t_ctx; }

// the counter and the sanitizer callbacks live in core/sched.cpp (uninstrumented translation unit): a callback
// that executes instrumented code from inside the TSan runtime's report path can deadlock the runtime

void seam_before(SeamCtl* ctl, int method, const void* x, const void* y, size_t elem_size)
{
    TaskCtx* c = t_ctx;
    if (method == M_SETSHIFT)
    {
        // (re)installing a shift is not an operator application: logged, never counted or faulted
        if (c) c->event(EV_APPLY_BEGIN, ctl->target, method, ctl->setshift_total + 1);
        return;
    }
    const long k = ++ctl->attempts_in_api;
    {
        // the library must hand the operator valid, distinct, non-overlapping length-n buffers
        const char* xb = (const char*) x;
        const char* yb = (const char*) y;
        const size_t len = (size_t) ctl->n * elem_size;
        const char* err = nullptr;
        if (!x || !y)
            err = "null buffer";
        else if (xb == yb)
            err = "input and output buffer are the same";
        else if ((xb < yb && xb + len > yb) || (yb < xb && yb + len > xb))
            err = "input and output buffers overlap";
        if (err)
        {
            ctl->buffer_errors++;
            throw SeamBufferError{err};
        }
    }
    if (c)
    {
        c->event(EV_APPLY_BEGIN, ctl->target, method, k);
        if (c->yield_fn) c->yield_fn(c, EV_APPLY_BEGIN);
        if (c->work_cap > 0 && ctl->target == 0 && k > c->work_cap) throw WorkCapExceeded{};
    }
    if (ctl->armed_at > 0 && !ctl->fired && k == ctl->armed_at)
    {
        ctl->fired = true;
        ctl->fired_at = k;
        ctl->fired_method = method;
        ctl->fired_phase = c ? (int) c->last_checkpoint_in_api : -1;
        if (c) c->event(EV_FAULT, ctl->target, ctl->armed_type, k);
        if (ctl->armed_type == 3)
        {
            ctl->poison_pending = true;  // no throw: the real operator runs, its output is replaced in seam_after
            return;
        }
        switch (ctl->armed_type)
        {
            case 1: throw SimRuntimeFault(ctl->armed_token);
            case 2: throw (int) (ctl->armed_token & 0x7fffffff);
            default: throw SimFault(ctl->armed_token);
        }
    }
}

void seam_after(SeamCtl* ctl, int method, const void* y, size_t elem_size)
{
    TaskCtx* c = t_ctx;
    ctl->per_method[method]++;
    if (method == M_SETSHIFT)
    {
        ctl->setshift_total++;
        if (c) c->event(EV_APPLY_END, ctl->target, method, ctl->setshift_total);
        return;
    }
    if (ctl->poison_pending && y)
    {
        ctl->poison_pending = false;
        const size_t bytes = (size_t) ctl->n * elem_size;
        if (elem_size == sizeof(float))
        {
            float* p = (float*) const_cast<void*>(y);
            for (size_t i = 0; i < bytes / sizeof(float); i++) p[i] = std::numeric_limits<float>::quiet_NaN();
        }
        else
        {
            double* p = (double*) const_cast<void*>(y);
            for (size_t i = 0; i < bytes / sizeof(double); i++) p[i] = std::numeric_limits<double>::quiet_NaN();
        }
    }
    ctl->completed_in_api++;
    ctl->completed_since_init++;
    ctl->completed_total++;
    if (c)
    {
        c->n_apply[ctl->target]++;
        c->event(EV_APPLY_END, ctl->target, method, ctl->completed_in_api);
        if (y) c->log.bytes(y, (size_t) ctl->n * elem_size);
        if (c->yield_fn) c->yield_fn(c, EV_APPLY_END);
    }
}

[[noreturn]] void eigen_assert_failed(const char* expr, const char* file, int line)
{
    throw EigenAssertion{expr, file, line};
}

}  // namespace sim

// ---- sink of the guarded hook in /repo --------------------------------------------------------
namespace spectra_verif {
void on_event(const FacView& v)
{
    using namespace sim;
    TaskCtx* c = current_ctx();
    if (!c) return;
    int kind = -1;
    for (int i = 0; i < CK_COUNT; i++)
        if (!std::strcmp(v.kind, checkpoint_name(i))) kind = i;
    if (kind < 0) return;
    c->n_checkpoint[kind]++;
    if (kind == CK_RESTART)
    {
        c->restarts_in_api++;
        c->restarts_since_init++;
    }
    c->last_checkpoint_in_api = kind;
    if (kind == CK_INIT)
    {
        c->min_beta_rel = 1e300L;
        c->expands_since_init = 0;
        c->restarts_since_init = 0;
    }
    if (kind == CK_EXPAND) c->expands_since_init++;
    else if (c->beta_scale > 0 && kind != CK_RESTART)
    {
        const long double rel = v.beta / c->beta_scale;
        if (rel < c->min_beta_rel) c->min_beta_rel = rel;
    }
    c->event(EV_CHECKPOINT, kind, 0, v.k);
    if (c->observer) c->observer->on_checkpoint(kind, v);
    if (c->yield_fn) c->yield_fn(c, EV_CHECKPOINT);
}
}  // namespace spectra_verif

// ---- sanitizer callbacks ---------------------------------------------------------------------
extern "C" {
__attribute__((used, visibility("default"), no_sanitize("address", "thread", "undefined"))) const char* __asan_default_options()
{
    return "halt_on_error=0:detect_leaks=0:exitcode=77:malloc_fill_byte=190:max_malloc_fill_size=268435456:"
           "allocator_may_return_null=1:print_summary=1:detect_stack_use_after_return=0";
}
__attribute__((used, visibility("default"), no_sanitize("address", "thread", "undefined"))) const char* __ubsan_default_options()
{
    return "halt_on_error=0:print_stacktrace=0:exitcode=77";
}
__attribute__((used, visibility("default"), no_sanitize("address", "thread", "undefined"))) const char* __tsan_default_options()
{
    return "halt_on_error=0:exitcode=0:report_thread_leaks=0:history_size=4:suppress_equal_stacks=0:suppress_equal_addresses=0";
}
}
