// NOTE: compiled without -fsanitize=thread (Makefile: UNINSTR). Self-contained on purpose: only static
// functions, plain C arrays and libc calls.
#include "sched.h"
#include <climits>
#include <cstdlib>
#include <cstring>
#include <linux/futex.h>
#include <sys/syscall.h>
#include <unistd.h>

namespace sim {

namespace {
struct SRng
{
    uint64_t s[4];
};
static uint64_t s_splitmix(uint64_t& x)
{
    uint64_t z = (x += 0x9e3779b97f4a7c15ULL);
    z = (z ^ (z >> 30)) * 0xbf58476d1ce4e5b9ULL;
    z = (z ^ (z >> 27)) * 0x94d049bb133111ebULL;
    return z ^ (z >> 31);
}
static void s_seed(SRng& r, uint64_t seed)
{
    uint64_t x = seed;
    for (int i = 0; i < 4; i++) r.s[i] = s_splitmix(x);
}
static uint64_t s_rotl(uint64_t x, int k) { return (x << k) | (x >> (64 - k)); }
static uint64_t s_next(SRng& r)
{
    const uint64_t res = s_rotl(r.s[1] * 5, 7) * 9;
    const uint64_t t = r.s[1] << 17;
    r.s[2] ^= r.s[0];
    r.s[3] ^= r.s[1];
    r.s[1] ^= r.s[2];
    r.s[0] ^= r.s[3];
    r.s[2] ^= t;
    r.s[3] = s_rotl(r.s[3], 45);
    return res;
}
static uint64_t s_below(SRng& r, uint64_t n) { return n ? s_next(r) % n : 0; }
static double s_real01(SRng& r) { return (s_next(r) >> 11) * (1.0 / 9007199254740992.0); }
static const int MAXT = 64;
}  // namespace

struct Scheduler
{
    int ntasks;
    int policy;
    double p;
    SRng rng;
    volatile int turn;  // -2: nobody yet, -1: controller, >= 0: task id
    char alive[MAXT];
    int nalive;
    int prio[MAXT];
    long change_points[4];
    int nchange;
    int victim;
    int use_explicit;
    int* explicit_schedule;
    long nexplicit, explicit_pos;
    int* choices;
    long nchoices, cap_choices;
    long yields, switches;
    uint64_t inter;
    int last_kind[MAXT];
    long pairs[8][8];
    // pre-emption at basic-block edges of the instrumented library code (see the trace-pc-guard callback below)
    long edge_mean;          // 0: off; otherwise gaps are uniform in [1, 2*edge_mean]
    int use_explicit_gaps;
    long* explicit_gaps;
    long nexplicit_gaps, explicit_gap_pos;
    long* gaps;              // the gaps that were used, in global draw order (replayable)
    long ngaps, cap_gaps;
    long edge_yields, edges_seen;
    int overflow;            // a log ran out of its fixed capacity: the run cannot be replayed (engine error)
};

static void futex_wait(volatile int* addr, int val) { syscall(SYS_futex, addr, FUTEX_WAIT_PRIVATE, val, nullptr, nullptr, 0); }
static void futex_wake_all(volatile int* addr) { syscall(SYS_futex, addr, FUTEX_WAKE_PRIVATE, INT_MAX, nullptr, nullptr, 0); }

static void park_until(Scheduler* s, int me)
{
    for (;;)
    {
        int t = __atomic_load_n(&s->turn, __ATOMIC_ACQUIRE);
        if (t == me) return;
        futex_wait(&s->turn, t);
    }
}
static void hand_to(Scheduler* s, int next)
{
    __atomic_store_n(&s->turn, next, __ATOMIC_RELEASE);
    futex_wake_all(&s->turn);
}
static void mix(Scheduler* s, uint64_t v)
{
    s->inter ^= v;
    s->inter *= 0x100000001b3ULL;
    s->inter ^= s->inter >> 29;
    s->inter *= 0xbf58476d1ce4e5b9ULL;
}
static void record_choice(Scheduler* s, int next)
{
    // fixed capacity, allocated by the controller before the tasks start: growing the log from a task thread would
    // be a (harness) write that TSan attributes to the task and reports against the next task's realloc
    if (s->nchoices == s->cap_choices) { s->overflow = 1; return; }
    s->choices[s->nchoices++] = next;
}

Scheduler* sched_create(int ntasks, int policy, double p, uint64_t seed, const int* explicit_schedule, long nexplicit)
{
    Scheduler* s = (Scheduler*) calloc(1, sizeof(Scheduler));
    if (ntasks > MAXT) ntasks = MAXT;
    s->ntasks = ntasks;
    s->policy = policy;
    s->p = p;
    s_seed(s->rng, seed);
    s->turn = -2;
    for (int i = 0; i < ntasks; i++) { s->alive[i] = 1; s->prio[i] = i; }
    s->nalive = ntasks;
    for (int i = ntasks - 1; i > 0; i--)
    {
        int j = (int) s_below(s->rng, (uint64_t) i + 1);
        int t = s->prio[i]; s->prio[i] = s->prio[j]; s->prio[j] = t;
    }
    if (policy == SP_PCT)
    {
        s->nchange = 1 + (int) s_below(s->rng, 3);
        for (int i = 0; i < s->nchange; i++) s->change_points[i] = (long) s_below(s->rng, 400 * (uint64_t) ntasks);
    }
    s->victim = (policy == SP_STARVE) ? (int) s_below(s->rng, (uint64_t) ntasks) : -1;
    if (explicit_schedule)
    {
        s->use_explicit = 1;
        s->nexplicit = nexplicit;
        s->explicit_schedule = (int*) malloc(sizeof(int) * (size_t) (nexplicit + 1));
        memcpy(s->explicit_schedule, explicit_schedule, sizeof(int) * (size_t) nexplicit);
    }
    s->cap_choices = 1L << 21;
    s->choices = (int*) malloc(sizeof(int) * (size_t) s->cap_choices);
    s->inter = 0x243f6a8885a308d3ULL;
    return s;
}

void sched_set_edge(Scheduler* s, long mean_gap, const long* explicit_gaps, long nexplicit)
{
    s->edge_mean = mean_gap;
    if (explicit_gaps)
    {
        s->use_explicit_gaps = 1;
        s->nexplicit_gaps = nexplicit;
        s->explicit_gaps = (long*) malloc(sizeof(long) * (size_t) (nexplicit + 1));
        memcpy(s->explicit_gaps, explicit_gaps, sizeof(long) * (size_t) nexplicit);
    }
    s->cap_gaps = 1L << 15;
    s->gaps = (long*) malloc(sizeof(long) * (size_t) s->cap_gaps);
}

static long next_gap(Scheduler* s)
{
    long g;
    if (s->use_explicit_gaps)
    {
        if (s->explicit_gap_pos >= s->nexplicit_gaps) return LONG_MAX;
        g = s->explicit_gaps[s->explicit_gap_pos++];
    }
    else
        g = 1 + (long) s_below(s->rng, (uint64_t) (2 * s->edge_mean));
    if (g < 1) g = 1;
    // budget of edge pre-emptions per run: once it is used up the tasks are only switched at the ordinary yield points
    // (the recorded gap list stays a complete description: a replay that runs out of gaps behaves the same way)
    if (s->ngaps == s->cap_gaps) return LONG_MAX;
    s->gaps[s->ngaps++] = g;
    return g;
}

// per-thread state of the edge callback: plain __thread PODs in this uninstrumented translation unit
static __thread Scheduler* t_sched = nullptr;
static __thread int t_task = -1;
static __thread long t_countdown = 0;

void sched_edge_attach(Scheduler* s, int task)
{
    if (!s || (s->edge_mean <= 0 && !s->use_explicit_gaps)) return;
    t_task = task;
    t_countdown = next_gap(s);
    t_sched = s;
}
void sched_edge_detach() { t_sched = nullptr; }
long sched_edge_yields(const Scheduler* s) { return s->edge_yields; }
long sched_edges_seen(const Scheduler* s) { return s->edges_seen; }
long sched_ngaps(const Scheduler* s) { return s->ngaps; }
int sched_overflow(const Scheduler* s) { return s->overflow; }
const long* sched_gaps(const Scheduler* s) { return s->gaps; }

void sched_destroy(Scheduler* s)
{
    free(s->explicit_gaps);
    free(s->gaps);
    free(s->explicit_schedule);
    free(s->choices);
    free(s);
}

static int first_alive(Scheduler* s)
{
    for (int i = 0; i < s->ntasks; i++)
        if (s->alive[i]) return i;
    return -1;
}
static int kth_alive(Scheduler* s, int k, int skip)
{
    for (int i = 0; i < s->ntasks; i++)
    {
        if (!s->alive[i] || i == skip) continue;
        if (k-- == 0) return i;
    }
    return -1;
}

// the running task `me` (or -1 at start / when it just ended) picks who runs next
static int choose(Scheduler* s, int me, bool me_alive)
{
    if (s->nalive == 0) return -1;
    int next = -1;
    if (s->use_explicit)
    {
        if (s->explicit_pos < s->nexplicit)
        {
            next = s->explicit_schedule[s->explicit_pos++];
            if (next < 0 || next >= s->ntasks || !s->alive[next]) next = -1;
        }
        if (next < 0) next = me_alive ? me : first_alive(s);
        return next;
    }
    switch (s->policy)
    {
        case SP_SEQUENTIAL:
            next = me_alive ? me : first_alive(s);
            break;
        case SP_PCT:
        {
            for (int c = 0; c < s->nchange; c++)
                if (s->change_points[c] == s->yields && me_alive)
                {
                    int lowest = s->prio[0];
                    for (int i = 0; i < s->ntasks; i++) lowest = s->prio[i] < lowest ? s->prio[i] : lowest;
                    s->prio[me] = lowest - 1;
                }
            int best = -1;
            for (int i = 0; i < s->ntasks; i++)
                if (s->alive[i] && (best < 0 || s->prio[i] > s->prio[best])) best = i;
            next = best;
            break;
        }
        case SP_BURSTY:
            if (me_alive && !(s_real01(s->rng) < s->p)) next = me;
            else next = kth_alive(s, (int) s_below(s->rng, (uint64_t) s->nalive), -1);
            break;
        case SP_STARVE:
        {
            const bool starve = s->victim >= 0 && s->alive[s->victim] && s->nalive > 1;
            const int cand = s->nalive - (starve ? 1 : 0);
            next = kth_alive(s, (int) s_below(s->rng, (uint64_t) cand), starve ? s->victim : -1);
            break;
        }
        default:
            next = kth_alive(s, (int) s_below(s->rng, (uint64_t) s->nalive), -1);
    }
    if (next < 0) next = me_alive ? me : first_alive(s);
    return next;
}

void sched_start(Scheduler* s)
{
    int next = choose(s, -1, false);
    record_choice(s, next);
    hand_to(s, next);
}

void sched_task_begin(Scheduler* s, int task) { park_until(s, task); }

void sched_yield(Scheduler* s, int task, int kind)
{
    s->yields++;
    mix(s, ((uint64_t) task << 8) | (uint64_t) (kind & 0xff));
    s->last_kind[task] = kind & 7;
    int next = choose(s, task, true);
    record_choice(s, next);
    if (next != task)
    {
        s->switches++;
        s->pairs[kind & 7][s->last_kind[next] & 7]++;
        hand_to(s, next);
        park_until(s, task);
    }
}

void sched_task_end(Scheduler* s, int task)
{
    s->alive[task] = 0;
    s->nalive--;
    mix(s, 0xE0D00000ULL | (uint64_t) task);
    if (s->nalive == 0)
    {
        hand_to(s, -1);
        return;
    }
    int next = choose(s, task, false);
    record_choice(s, next);
    s->switches++;
    hand_to(s, next);
}

void sched_wait_all(Scheduler* s) { park_until(s, -1); }

long sched_yields(const Scheduler* s) { return s->yields; }
long sched_switches(const Scheduler* s) { return s->switches; }
uint64_t sched_interleaving_hash(const Scheduler* s) { return s->inter; }
long sched_nchoices(const Scheduler* s) { return s->nchoices; }
const int* sched_choices(const Scheduler* s) { return s->choices; }
void sched_pair_matrix(const Scheduler* s, long out[8][8])
{
    for (int a = 0; a < 8; a++)
        for (int b = 0; b < 8; b++) out[a][b] = s->pairs[a][b];
}

}  // namespace sim

// ---- pre-emption at basic-block edges ---------------------------------------------------------------------------
// The library translation units of the TSan build are compiled with -fsanitize-coverage=trace-pc-guard: every
// basic-block edge of the real Spectra/Eigen code calls back into this (uninstrumented) file. A task counts its
// edges down from a seeded gap and yields to the scheduler when the counter reaches zero, so a context switch can
// land between ANY two basic blocks of library code, not only at operator applications and checkpoints.
extern "C" {
__attribute__((used, visibility("default"))) void __sanitizer_cov_trace_pc_guard_init(uint32_t* start, uint32_t* stop)
{
    static uint32_t n = 0;
    if (start == stop || *start) return;
    for (uint32_t* x = start; x < stop; x++) *x = ++n;
}
__attribute__((used, visibility("default"))) void __sanitizer_cov_trace_pc_guard(uint32_t* guard)
{
    sim::Scheduler* s = sim::t_sched;
    if (!s) return;
    s->edges_seen++;
    if (--sim::t_countdown > 0) return;
    sim::t_countdown = sim::next_gap(s);
    s->edge_yields++;
    sim::mix(s, 0xED6E00000000ULL | (uint64_t) *guard);
    sim::sched_yield(s, sim::t_task, 6);
}
}

// ---- sanitizer report counter (uninstrumented on purpose, see context.cpp) ----------------------------------
namespace sim {
static volatile long g_san_reports = 0;
long sanitizer_reports() { return __atomic_load_n(&g_san_reports, __ATOMIC_RELAXED); }
void sanitizer_reports_reset() { __atomic_store_n(&g_san_reports, 0, __ATOMIC_RELAXED); }
}  // namespace sim
extern "C" {
__attribute__((used, visibility("default"))) void __asan_on_error() { __atomic_fetch_add(&sim::g_san_reports, 1, __ATOMIC_RELAXED); }
__attribute__((used, visibility("default"))) void __tsan_on_report(void*) { __atomic_fetch_add(&sim::g_san_reports, 1, __ATOMIC_RELAXED); }
__attribute__((used, visibility("default"))) void __ubsan_on_report() { __atomic_fetch_add(&sim::g_san_reports, 1, __ATOMIC_RELAXED); }
}
