// Seeded PRNG streams: one integer decides everything.
#pragma once
#include <cstdint>
#include <cstring>
#include <string>
#include <vector>

namespace sim {

inline uint64_t splitmix64(uint64_t& x)
{
    uint64_t z = (x += 0x9e3779b97f4a7c15ULL);
    z = (z ^ (z >> 30)) * 0xbf58476d1ce4e5b9ULL;
    z = (z ^ (z >> 27)) * 0x94d049bb133111ebULL;
    return z ^ (z >> 31);
}

inline uint64_t mix64(uint64_t a, uint64_t b)
{
    uint64_t x = a ^ (b * 0x9e3779b97f4a7c15ULL + 0x632be59bd9b4e019ULL);
    return splitmix64(x);
}

inline uint64_t hash_str(const char* s)
{
    uint64_t h = 0xcbf29ce484222325ULL;
    for (; *s; ++s)
    {
        h ^= (unsigned char) *s;
        h *= 0x100000001b3ULL;
    }
    return h;
}

// xoshiro256**
struct Rng
{
    uint64_t s[4];
    explicit Rng(uint64_t seed = 1)
    {
        uint64_t x = seed;
        for (int i = 0; i < 4; i++) s[i] = splitmix64(x);
    }
    static inline uint64_t rotl(uint64_t x, int k) { return (x << k) | (x >> (64 - k)); }
    uint64_t next()
    {
        const uint64_t r = rotl(s[1] * 5, 7) * 9;
        const uint64_t t = s[1] << 17;
        s[2] ^= s[0];
        s[3] ^= s[1];
        s[1] ^= s[2];
        s[0] ^= s[3];
        s[2] ^= t;
        s[3] = rotl(s[3], 45);
        return r;
    }
    // uniform integer in [0, n)
    uint64_t below(uint64_t n) { return n ? next() % n : 0; }
    // uniform integer in [lo, hi]
    long range(long lo, long hi) { return hi <= lo ? lo : lo + (long) below((uint64_t)(hi - lo + 1)); }
    double real01() { return (next() >> 11) * (1.0 / 9007199254740992.0); }
    double real(double lo, double hi) { return lo + (hi - lo) * real01(); }
    bool chance(double p) { return real01() < p; }
    template <class T>
    const T& pick(const std::vector<T>& v) { return v[below(v.size())]; }
};

// run seed of the i-th run of a batch
inline uint64_t run_seed_of(uint64_t verif_seed, uint64_t run_index)
{
    uint64_t x = verif_seed ^ (0x9e3779b97f4a7c15ULL * (run_index + 1));
    return splitmix64(x);
}

// independent stream for one purpose
inline Rng stream(uint64_t run_seed, const char* tag)
{
    return Rng(mix64(run_seed, hash_str(tag)));
}

// incremental 64-bit hash used for event logs and result bytes
struct Hasher
{
    uint64_t h = 0x243f6a8885a308d3ULL;
    void u64(uint64_t v)
    {
        h ^= v;
        h *= 0x100000001b3ULL;
        h ^= h >> 29;
        h *= 0xbf58476d1ce4e5b9ULL;
    }
    void bytes(const void* p, size_t n)
    {
        const unsigned char* c = (const unsigned char*) p;
        size_t i = 0;
        for (; i + 8 <= n; i += 8)
        {
            uint64_t v;
            std::memcpy(&v, c + i, 8);
            u64(v);
        }
        uint64_t v = 0;
        if (i < n) std::memcpy(&v, c + i, n - i);
        u64(v ^ (uint64_t) n);
    }
    void str(const char* s) { bytes(s, std::strlen(s)); }
};

}  // namespace sim
