// Per-task simulation context: event log, operator seam control, fault arming, scheduler hook.
#pragma once
#include <cstdint>
#include <stdexcept>
#include <string>
#include <vector>
#include "prng.h"
#include "../seam/spectra_verif_sim.h"

namespace sim {

// ---- what the injected faults throw --------------------------------------------------------
struct SimFault  // deliberately NOT derived from std::exception
{
    uint64_t token;
    explicit SimFault(uint64_t t) : token(t) {}
    virtual ~SimFault() {}
};
struct SimRuntimeFault : std::runtime_error
{
    uint64_t token;
    explicit SimRuntimeFault(uint64_t t) : std::runtime_error("simulated operator failure"), token(t) {}
};
// Eigen's internal assertions are turned into this exception (see eigen_config.h)
struct EigenAssertion
{
    const char* expr;
    const char* file;
    int line;
};
// the seam found the library handing it an invalid buffer
struct SeamBufferError
{
    const char* what;
};
// run aborted by the harness (work cap exceeded)
struct WorkCapExceeded
{
};

enum EventKind
{
    EV_API_ENTER = 1,
    EV_API_LEAVE = 2,
    EV_APPLY_BEGIN = 3,
    EV_APPLY_END = 4,
    EV_CHECKPOINT = 5,
    EV_FAULT = 6
};
enum Method
{
    M_PERFORM = 0,
    M_SOLVE = 1,
    M_LOWER = 2,
    M_UPPER = 3,
    M_SETSHIFT = 4
};
enum CheckpointKind { CK_INIT = 0, CK_FACTORIZE = 1, CK_COMPRESS = 2, CK_EXPAND = 3, CK_RESTART = 4, CK_COUNT = 5 };
inline const char* checkpoint_name(int k)
{
    static const char* n[] = {"init", "factorize", "compress", "expand_basis", "restart"};
    return (k >= 0 && k < CK_COUNT) ? n[k] : "?";
}

struct TaskCtx;

// one per seam operator object (A or B) of a world
struct SeamCtl
{
    int target = 0;  // 0 = A, 1 = B
    long n = 0;
    // counters
    long attempts_in_api = 0;      // applications started inside the current API call
    long completed_in_api = 0;     // applications completed inside the current API call
    long completed_since_init = 0; // completed applications since the last init() entry
    long completed_total = 0;
    long setshift_total = 0;
    long per_method[5] = {0, 0, 0, 0, 0};
    // fault arming (index within the current API call, 1-based; 0 = disarmed)
    long armed_at = 0;
    int armed_type = 0;
    uint64_t armed_token = 0;
    bool fired = false;
    long fired_at = 0;
    int fired_method = -1;
    int fired_phase = -1;          // last checkpoint kind seen before the fault (-1: none in this call)
    long buffer_errors = 0;
    bool poison_pending = false;   // FT_POISON fired at this application: seam_after overwrites the output with NaN
    long native_throws = 0;        // exceptions that originated inside the real wrapper (e.g. CG not converging)

    void begin_api()
    {
        attempts_in_api = 0;
        completed_in_api = 0;
    }
    void arm(long at, int type, uint64_t token)
    {
        armed_at = at;
        armed_type = type;
        armed_token = token;
        fired = false;
        poison_pending = false;
        fired_at = 0;
        fired_method = -1;
        fired_phase = -1;
    }
    void disarm() { armed_at = 0; poison_pending = false; }
};

// observer of factorization checkpoints (C07); implemented in oracle/krylov.*
struct CheckpointObserver
{
    virtual ~CheckpointObserver() {}
    virtual void on_checkpoint(int kind, const spectra_verif::FacView& v) = 0;
};

struct TraceEvent
{
    int kind, a, b;
    long k;
};

struct TaskCtx
{
    int task_id = 0;
    Hasher log;            // hash of the event sequence (with result bits)
    Hasher shape;          // hash of (task, event kind) only - interleaving measure
    long nevents = 0;
    long n_apply[2] = {0, 0};
    long n_checkpoint[CK_COUNT] = {0, 0, 0, 0, 0};
    long restarts_in_api = 0;
    long last_checkpoint_in_api = -1;
    // near-breakdown tracking (cheap observer): smallest f_norm()/beta_scale and number of breakdown
    // restarts seen at checkpoints since the last init checkpoint
    long double beta_scale = 0;  // 0 = off
    long double min_beta_rel = 1e300L;
    long expands_since_init = 0;
    long restarts_since_init = 0;
    long work_cap = 0;     // abort the API call when attempts exceed this (0 = no cap)
    SeamCtl* seam[2] = {nullptr, nullptr};
    CheckpointObserver* observer = nullptr;
    // scheduler hook (C20): called at every yield point; null for single-task runs
    void (*yield_fn)(TaskCtx*, int evkind) = nullptr;
    void* sched = nullptr;
    std::vector<TraceEvent>* trace = nullptr;  // optional full trace (replay --verbose)

    void event(int kind, int a, int b, long k)
    {
        nevents++;
        log.u64(((uint64_t) kind << 56) ^ ((uint64_t) a << 48) ^ ((uint64_t) b << 40) ^ (uint64_t) k);
        if (trace) trace->push_back(TraceEvent{kind, a, b, k});
    }
    void begin_api(int opkind)
    {
        restarts_in_api = 0;
        last_checkpoint_in_api = -1;
        for (int t = 0; t < 2; t++)
            if (seam[t]) seam[t]->begin_api();
        event(EV_API_ENTER, opkind, 0, 0);
        if (yield_fn) yield_fn(this, EV_API_ENTER);
    }
    void end_api(int opkind, int outcome, uint64_t result_hash)
    {
        event(EV_API_LEAVE, opkind, outcome, 0);
        log.u64(result_hash);
        if (yield_fn) yield_fn(this, EV_API_LEAVE);
    }
};

// the context of the task the calling thread is executing (null outside simulated API calls)
TaskCtx*& current_ctx();

// sanitizer finding counters (incremented from __asan_on_error / __tsan_on_report)
long sanitizer_reports();
void sanitizer_reports_reset();

// seam entry points (non-template; defined in context.cpp)
void seam_before(SeamCtl* ctl, int method, const void* x, const void* y, size_t elem_size);
void seam_after(SeamCtl* ctl, int method, const void* y, size_t elem_size);

}  // namespace sim
