// S2: deterministic scheduler for simulated caller threads. Real threads, all but one parked; the
// running task decides at every yield point (from its own PRNG stream or an explicit schedule) who runs
// next. sched.cpp is compiled WITHOUT sanitizer instrumentation and uses nothing but static functions and
// plain arrays (no inline/template code that the linker could merge with an instrumented copy), so that the
// hand-off is invisible to ThreadSanitizer: the execution is physically sequential and exactly repeatable,
// yet to TSan the tasks are unsynchronised, so any conflicting access between tasks is reported.
#pragma once
#include <cstdint>

namespace sim {

enum SchedPolicy { SP_UNIFORM = 0, SP_PCT = 1, SP_BURSTY = 2, SP_STARVE = 3, SP_SEQUENTIAL = 4 };

struct Scheduler;
Scheduler* sched_create(int ntasks, int policy, double p, uint64_t seed, const int* explicit_schedule, long nexplicit);
void sched_destroy(Scheduler* s);
void sched_start(Scheduler* s);                     // controller: release the first task
void sched_task_begin(Scheduler* s, int task);      // task thread: park until chosen
void sched_yield(Scheduler* s, int task, int kind); // task thread: yield point
void sched_task_end(Scheduler* s, int task);        // task thread: done, hand over
void sched_wait_all(Scheduler* s);                  // controller: park until every task ended
long sched_yields(const Scheduler* s);
long sched_switches(const Scheduler* s);
uint64_t sched_interleaving_hash(const Scheduler* s);
long sched_nchoices(const Scheduler* s);
const int* sched_choices(const Scheduler* s);       // the schedule that was executed (replayable)
void sched_pair_matrix(const Scheduler* s, long out[8][8]); // event kinds adjacent across a context switch

// pre-emption at basic-block edges (TSan build: library TUs carry -fsanitize-coverage=trace-pc-guard).
// mean_gap = 0 and no explicit gaps: off. A task thread attaches itself after sched_task_begin().
void sched_set_edge(Scheduler* s, long mean_gap, const long* explicit_gaps, long nexplicit);
void sched_edge_attach(Scheduler* s, int task);
void sched_edge_detach();
long sched_edge_yields(const Scheduler* s);
long sched_edges_seen(const Scheduler* s);
long sched_ngaps(const Scheduler* s);
int sched_overflow(const Scheduler* s);               // a decision log overflowed: not replayable
const long* sched_gaps(const Scheduler* s);          // the gaps that were used (replayable)

// sanitizer finding counter (incremented from __asan_on_error / __tsan_on_report / __ubsan_on_report)
long sanitizer_reports();
void sanitizer_reports_reset();

}  // namespace sim
