// Force-included before anything else in every translation unit of the harness:
// Eigen's internal assertions become a C++ exception, so that an index assertion inside the
// library is an observable outcome of a simulated API call instead of an abort.
#pragma once
#include <cstddef>
namespace sim {
[[noreturn]] void eigen_assert_failed(const char* expr, const char* file, int line);
}  // namespace sim
#define eigen_assert(x)                                                       \
    do                                                                        \
    {                                                                         \
        if (!(x)) ::sim::eigen_assert_failed(#x, __FILE__, __LINE__);         \
    } while (false)
#define EIGEN_DONT_PARALLELIZE 1
