#include "exec.h"

namespace sim {

Session::Session(const WorldSpec& spec)
{
    world_owner = make_world(spec);
    world = world_owner.get();
    ctx.seam[0] = &world->ctlA;
    ctx.seam[1] = &world->ctlB;
    fault_token_seed = mix64(spec.mseed, 0xFA17);
}

Session::Session(IWorld* shared)
{
    world = shared;
    ctx.seam[0] = &world->ctlA;
    ctx.seam[1] = &world->ctlB;
    fault_token_seed = mix64(shared->spec.mseed, 0xFA18);
}

Session::Session(std::unique_ptr<IWorld> owned)
{
    world_owner = std::move(owned);
    world = world_owner.get();
    ctx.seam[0] = &world->ctlA;
    ctx.seam[1] = &world->ctlB;
    fault_token_seed = mix64(world->spec.mseed, 0xFA19);
}

Session::~Session()
{
    // solvers hold references into the world: destroy them first
    solver.reset();
    svd.reset();
}

void Session::construct_solver()
{
    TaskCtx* saved = current_ctx();
    current_ctx() = &ctx;
    try
    {
        if (world->spec.family == F_SVD) svd = world->make_svd();
        else solver = world->make_solver();
    }
    catch (...)
    {
        current_ctx() = saved;
        throw;
    }
    current_ctx() = saved;
}

long Session::work_cap_for(long maxit) const
{
    // documented bound of operator applications of one compute(): 2 + 2*ncv*(maxit+1); the harness aborts at 4x
    const long ncv = world->spec.ncv;
    const long mi = std::min<long>(std::max<long>(maxit, 0), 100000);
    return 4 * (2 + 2 * ncv * (mi + 1)) + 64;
}

ApiResult Session::take_snapshot(Snapshot& s, long nvec, const Fault* fault, OpRecord* rec, int vary)
{
    TaskCtx* saved = current_ctx();
    current_ctx() = &ctx;
    if (fault && ctx.seam[fault->target])
    {
        SeamCtl* c = ctx.seam[fault->target];
        c->arm(fault->at, fault->type, mix64(fault_token_seed, (uint64_t) (c->completed_total * 2 + fault->target)));
        if (rec) rec->armed[fault->target] = true;
    }
    ctx.begin_api(OP_READ);
    ApiResult r = guarded([&]() -> long {
        const uint64_t salt = vary >= 0 ? mix64(world->spec.mseed, 0xACCE55 + (uint64_t) vary) : 0;
        if (salt & 4)
        {
            Snapshot narrow_first;
            solver->vectors(narrow_first, (long) ((salt >> 8) % (uint64_t) (world->spec.nev + 1)));
        }
        if (salt & 1)
        {
            solver->vectors(s, nvec);
            solver->values(s);
        }
        s.info = solver->info();
        s.niter = solver->niter();
        s.nops = solver->nops();
        if (!(salt & 1))
        {
            solver->values(s);
            solver->vectors(s, nvec);
        }
        return 0;
    });
    ctx.end_api(OP_READ, r.exc, r.threw ? 0 : s.hash());
    if (rec)
    {
        rec->read_applyA = world->ctlA.completed_in_api;
        rec->read_applyB = world->ctlB.completed_in_api;
    }
    if (fault && ctx.seam[fault->target])
    {
        SeamCtl* c = ctx.seam[fault->target];
        if (rec)
        {
            rec->fired[fault->target] = c->fired;
            rec->fired_at[fault->target] = c->fired_at;
            rec->fired_phase[fault->target] = c->fired_phase;
            rec->fired_method[fault->target] = c->fired_method;
        }
        c->disarm();
    }
    current_ctx() = saved;
    return r;
}

OpRecord Session::exec(const Op& op, int op_index)
{
    OpRecord rec;
    rec.tainted_before = tainted;
    const long events0 = ctx.nevents;
    TaskCtx* saved = current_ctx();
    current_ctx() = &ctx;
    const long san0 = sanitizer_reports();
    // arm attached faults
    for (const Fault& f : op.faults)
    {
        SeamCtl* c = ctx.seam[f.target];
        if (!c) continue;
        c->arm(f.at, f.type, mix64(fault_token_seed, (uint64_t) (c->completed_total * 2 + f.target)));
        rec.armed[f.target] = true;
    }
    ctx.work_cap = 0;
    switch (op.kind)
    {
        case OP_INIT0:
        case OP_INITV:
        case OP_INITZERO:
        {
            VecL v;
            if (op.kind == OP_INITV) v = gen_start_vector(world->spec, world->A, op.vclass, op.vseed);
            if (op.kind == OP_INITZERO) v = VecL::Zero(world->spec.n);
            world->ctlA.completed_since_init = 0;
            ctx.begin_api(op.kind);
            rec.res = guarded([&]() -> long {
                if (op.kind == OP_INIT0) solver->init0();
                else solver->initv(v);
                return 0;
            });
            ctx.end_api(op.kind, rec.res.exc, 0);
            if (!rec.res.threw)
            {
                tainted = false;
                computes_since_init = 0;
                compute_attempts_since_init = 0;
            }
            break;
        }
        case OP_COMPUTE:
        {
            ctx.work_cap = work_cap_for(op.maxit);
            compute_attempts_since_init++;
            ctx.begin_api(op.kind);
            rec.res = guarded([&]() -> long { return solver->compute(op.sel, op.maxit, (long double) op.tol, op.sort); });
            rec.restarts = ctx.restarts_in_api;
            rec.applyA = world->ctlA.completed_in_api;
            rec.applyB = world->ctlB.completed_in_api;
            rec.seamA_since_init = world->ctlA.completed_since_init;
            ctx.end_api(op.kind, rec.res.exc, (uint64_t) rec.res.ret);
            ctx.work_cap = 0;
            if (!rec.res.threw)
            {
                ever_computed = true;
                computes_since_init++;
            }
            break;
        }
        case OP_SVDCOMPUTE:
        {
            ctx.begin_api(op.kind);
            rec.res = guarded([&]() -> long { return svd->compute(op.maxit, (long double) op.tol); });
            ctx.end_api(op.kind, rec.res.exc, (uint64_t) rec.res.ret);
            break;
        }
        case OP_READ:
        {
            // accessor reads: results are not kept (const accessors must not change anything)
            ctx.begin_api(op.kind);
            Snapshot tmp;
            rec.res = guarded([&]() -> long {
                if (op.readmask & RD_INFO) tmp.info = solver->info();
                if (op.readmask & RD_NITER) tmp.niter = solver->niter();
                if (op.readmask & RD_NOPS) tmp.nops = solver->nops();
                if (op.readmask & RD_VALUES) solver->values(tmp);
                if (op.readmask & RD_VECTORS) solver->vectors(tmp, -1);
                if (op.readmask & RD_VECTORS_N) solver->vectors(tmp, op.nvec);
                return 0;
            });
            ctx.end_api(op.kind, rec.res.exc, rec.res.threw ? 0 : tmp.hash());
            break;
        }
        default: break;
    }
    // faults: what fired
    for (int t = 0; t < 2; t++)
    {
        SeamCtl* c = ctx.seam[t];
        if (!c || !rec.armed[t]) continue;
        rec.fired[t] = c->fired;
        rec.fired_at[t] = c->fired_at;
        rec.fired_phase[t] = c->fired_phase;
        rec.fired_method[t] = c->fired_method;
        c->disarm();
    }
    if (rec.res.threw && (rec.res.exc == X_SIMFAULT || rec.res.exc == X_SIMRUNTIME || rec.res.exc == X_INT ||
                          rec.res.exc == X_WORKCAP || rec.res.exc == X_EIGEN_ASSERT || rec.res.exc == X_SEAM_BUFFER ||
                          rec.res.exc == X_RUNTIME || rec.res.exc == X_STDEXC || rec.res.exc == X_UNKNOWN))
    {
        // anything but a clean argument rejection may leave the iteration state half-updated:
        // accessor contents are unspecified until the next init() returns
        tainted = true;
    }
    // snapshot after a returning compute()
    if (op.kind == OP_COMPUTE && !rec.res.threw)
    {
        rec.snap.ret = rec.res.ret;
        rec.read_res = take_snapshot(rec.snap, -1, nullptr, &rec, op_index);
        current_ctx() = &ctx;
        rec.has_snap = !rec.read_res.threw;
        rec.computes_since_init = computes_since_init;
        rec.compute_attempts_since_init = compute_attempts_since_init;
    }
    rec.tainted_after = tainted;
    rec.events = ctx.nevents - events0;
    rec.min_beta_rel = ctx.min_beta_rel;
    rec.expands = ctx.expands_since_init;
    rec.restarts_since_init = ctx.restarts_since_init;
    rec.san_reports = sanitizer_reports() - san0;
    current_ctx() = saved;
    return rec;
}

}  // namespace sim
