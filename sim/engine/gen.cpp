#include "gen.h"
#include <algorithm>
#include <cmath>
#include <cstdlib>
#include "../world/matgen.h"

namespace sim {

bool family_symmetric_like(int f) { return !family_is_general(f); }

std::vector<int> selection_rules(int family)
{
    if (family_is_general(family)) return {R_LM, R_LR, R_LI, R_SM, R_SR, R_SI};
    return {R_LM, R_LA, R_SM, R_SA, R_BE};
}
std::vector<int> sorting_rules(int family)
{
    if (family_is_general(family)) return {R_LM, R_LR, R_LI, R_SM, R_SR, R_SI};
    return {R_LA, R_LM, R_SA, R_SM};
}
int min_ncv(int family, int nev) { return family_is_general(family) ? nev + 2 : nev + 1; }

double tol_floor(int scalar)
{
    switch (scalar)
    {
        case S_FLOAT: return 8 * 1.2e-7;
        case S_LDOUBLE: return 8 * 1.1e-19;
        default: return 8 * 2.3e-16;
    }
}

static int weighted(Rng& r, const std::vector<std::pair<int, double>>& items)
{
    double tot = 0;
    for (auto& it : items) tot += it.second;
    double x = r.real01() * tot;
    for (auto& it : items)
    {
        if (x < it.second) return it.first;
        x -= it.second;
    }
    return items.back().first;
}

WorldSpec gen_world(const std::string& prop, uint64_t run_seed, const GenOpts& o)
{
    Rng r = stream(run_seed, "world");
    WorldSpec w;
    // ---- family ----
    if (o.force_family >= 0)
        w.family = o.force_family;
    else if (prop == "C01")
        w.family = weighted(r, {{F_SYM, 5}, {F_HERM, 2}, {F_SYMSHIFT, 3}});
    else if (prop == "C02")
        w.family = weighted(r, {{F_GEN, 5}, {F_GENRSHIFT, 3}, {F_GENCSHIFT, 2.5}});
    else if (prop == "C03")
        w.family = weighted(r, {{F_GCHOL, 1}, {F_GREGINV, 1}, {F_GSHIFTINV, 1}, {F_GBUCK, 1}, {F_GCAYLEY, 1}});
    else if (prop == "C16")
        w.family = F_SVD;
    else
        w.family = weighted(r, {{F_SYM, 4}, {F_HERM, 1.5}, {F_SYMSHIFT, 2}, {F_GEN, 3}, {F_GENRSHIFT, 1.5}, {F_GENCSHIFT, 1.5},
                                {F_GCHOL, 1}, {F_GREGINV, 1}, {F_GSHIFTINV, 1}, {F_GBUCK, 0.7}, {F_GCAYLEY, 0.7}});
    // ---- scalar ----
    w.scalar = S_DOUBLE;
    const double alt = o.thorough ? 0.2 : 0.1;
    if (w.family == F_SYM || w.family == F_SYMSHIFT || family_is_general(w.family))
    {
        double x = r.real01();
        if (x < alt) w.scalar = S_FLOAT;
        else if (x < 2 * alt) w.scalar = S_LDOUBLE;
    }
    else if (w.family == F_HERM || w.family == F_SVD)
    {
        if (r.chance(alt)) w.scalar = S_FLOAT;
    }
    // ---- sizes ----
    const int nmax = o.thorough ? 64 : 48;
    if (w.family == F_SVD)
    {
        int a = 6 + (int) r.below(o.thorough ? 55 : 35), b = 6 + (int) r.below(o.thorough ? 55 : 35);
        int shape = (int) r.below(3);  // tall, wide, square
        if (shape == 2) b = a;
        w.m_rows = (shape == 1) ? std::min(a, b) : std::max(a, b);
        w.n = (shape == 1) ? std::max(a, b) : std::min(a, b);
        if (shape == 2) w.m_rows = w.n = a;
        const int p = std::min(w.m_rows, w.n);
        w.nev = 1 + (int) r.below((uint64_t) std::min(5, p - 2));
        w.ncv = std::min(p, std::max(w.nev + 1, 2 * w.nev + 1 + (int) r.below(6)));
        w.mclass = weighted(r, {{M_RANDOM, 3}, {M_SEPARATED, 3}, {M_GRADED, 1}, {M_SPARSEPAT, 2}});
        // the solver works on the Gram matrix: in single precision graded spectra lose the small singular values
        if (w.scalar == S_FLOAT && w.mclass == M_GRADED) w.mclass = M_SEPARATED;
        w.variant = (int) r.below(2) | ((int) r.below(2) << 3);
        w.scale = r.chance(0.5) ? 1.0 : std::pow(10.0, r.real(-3, 3));
        // single precision: the convergence test max(eps^(2/3), theta) acts on the Gram matrix (theta = sigma^2);
        // down-scaled inputs fall below its absolute floor, which is an input-dimension effect
        if (w.scalar == S_FLOAT && w.scale < 1.0) w.scale = 1.0 / w.scale;
        w.mseed = r.next();
        return w;
    }
    w.n = 6 + (int) r.below((uint64_t) (nmax - 5));
    if (r.chance(0.5)) w.n = 6 + (int) r.below(25);  // weight on small
    const int nev_hi = std::min(6, w.n - (family_is_general(w.family) ? 3 : 2));
    w.nev = 1 + (int) r.below((uint64_t) std::max(1, nev_hi));
    const int lo = min_ncv(w.family, w.nev), hi = w.n;
    {
        double x = r.real01();
        if (x < 0.15) w.ncv = lo;
        else if (x < 0.25) w.ncv = hi;
        else
        {
            int a = std::min(hi, std::max(lo, 2 * w.nev + 1));
            int b = std::min(hi, a + 10);
            w.ncv = a + (int) r.below((uint64_t) (b - a + 1));
        }
    }
    // ---- matrix class ----
    const bool want_breakdown = (prop == "C01" || prop == "C02" || prop == "C03" || prop == "C07" || prop == "C14" || prop == "C20");
    if (family_is_general(w.family))
        w.mclass = weighted(r, {{M_RANDOM, 4}, {M_NORMAL, 2}, {M_TRIANGULAR, 1.5}, {M_SEPARATED, 2}, {M_SPARSEPAT, 1.5},
                                {M_BLOCKDIAG, want_breakdown ? 2.0 : 0.7}, {M_CLUSTERED, 0.5}});
    else
        w.mclass = weighted(r, {{M_RANDOM, 4}, {M_SEPARATED, 2.5}, {M_CLUSTERED, 1}, {M_GRADED, 1}, {M_REPEATED, 1}, {M_SPARSEPAT, 1.5},
                                {M_BLOCKDIAG, want_breakdown ? 2.0 : 0.7}, {M_LOWRANK, want_breakdown ? 1.5 : 0.4}});
    if (w.family == F_HERM && w.mclass == M_SPARSEPAT) w.mclass = M_RANDOM;
    // buckling: K_G = B must be nonsingular for the pencil to have finite eigenvalues only
    // (a graded K_G has eigenvalues down to 1e-8: the back-transformation sigma*nu/(nu-1) then returns inf)
    if (w.family == F_GBUCK && (w.mclass == M_LOWRANK || w.mclass == M_GRADED)) w.mclass = M_SEPARATED;
    if (w.mclass == M_LOWRANK) w.rank = 1 + (int) r.below((uint64_t) std::max(1, w.ncv - 1));
    if (w.mclass == M_BLOCKDIAG) w.nblock = 2 + (int) r.below((uint64_t) std::max(1, std::min(w.ncv - 1, w.n - 1) - 1));
    // the shift families factorize A - sigma*(I|B); keep A generic enough for a well-defined shift
    // ---- scale ----
    // same scale range in both tiers: beyond 1e+-3 the absolute thresholds of the library (eps^(2/3) floor of the
    // convergence test, breakdown thresholds) make the numeric clauses an input-dimension question
    const double smax = 3;
    w.scale = r.chance(0.4) ? 1.0 : std::pow(10.0, r.real(-smax, smax));
    if (w.scalar == S_FLOAT) w.scale = r.chance(0.4) ? 1.0 : std::pow(10.0, r.real(-3, 3));
    // ---- storage variant ----
    w.variant = 0;
    if (r.chance(0.35)) w.variant |= 1;
    if (family_has_B(w.family) && r.chance(0.35)) w.variant |= 2;
    if ((w.family == F_SYM || w.family == F_HERM || w.family == F_SYMSHIFT) && r.chance(0.25)) w.variant |= 4;
    if (w.family == F_GSHIFTINV || w.family == F_GBUCK || w.family == F_GCAYLEY)
    {
        // triangle options of SymShiftInvert (all 16 storage x triangle pairings are built)
        if (r.chance(0.3)) w.variant |= 16;
        if (r.chance(0.3)) w.variant |= 32;
    }
    // sparse storage usually holds sparse matrices: SparseLU / SimplicialLDLT orderings, supernodes and pivot sequences
    // only depend on the call history when the pattern is genuinely sparse (a dense matrix stored as sparse factorizes
    // identically whatever the solver's mode). Decided from a separate stream so that no other draw of the world moves.
    {
        Rng r2 = stream(run_seed, "world-sparsity");
        const bool lu_family = (w.family == F_SYMSHIFT || w.family == F_GENRSHIFT || w.family == F_GSHIFTINV || w.family == F_GBUCK ||
                                w.family == F_GCAYLEY);
        const bool both = !family_has_B(w.family) || (w.variant & 2);
        if (lu_family && (w.variant & 1) && both && w.mclass != M_BLOCKDIAG && w.mclass != M_LOWRANK && r2.chance(0.6))
        {
            w.mclass = M_SPARSEPAT;
            if (w.n < 30 && r2.chance(0.5)) w.n = 30 + (int) r2.below((uint64_t) (nmax - 29));
            // sparsity level (`rank` field of a sparse-pattern world): about 1..3 off-diagonal entries per row
            if (w.family != F_GENRSHIFT && r2.chance(0.7)) w.rank = 1 + (int) r2.below(3);
        }
    }
    if (w.family == F_GCHOL || w.family == F_GREGINV)
    {
        // triangle options of the product wrapper of A (bit 16) and of DenseCholesky / SparseCholesky / SparseRegularInverse (bit 32)
        Rng r3 = stream(run_seed, "world-uplo");
        if (r3.chance(0.3)) w.variant |= 16;
        if (r3.chance(0.3)) w.variant |= 32;
    }
    // ---- B ----
    if (family_has_B(w.family))
    {
        double kmax = 4;
        if (w.family == F_GREGINV) kmax = 2;  // SparseRegularInverse (CG) itself fails on ill-conditioned B
        w.kappaB = std::pow(10.0, r.real(0, kmax));
    }
    w.mseed = r.next();
    // ---- shift ----
    if (w.family == F_SYMSHIFT || w.family == F_GENRSHIFT || w.family == F_GENCSHIFT || w.family == F_GSHIFTINV ||
        w.family == F_GBUCK || w.family == F_GCAYLEY)
    {
        const double delta = std::pow(10.0, r.real(-3, -1));
        if (!choose_shift(w, r, delta))
        {
            // no admissible shift found for this matrix: fall back to a generic, well separated spectrum
            w.mclass = family_is_general(w.family) ? M_NORMAL : M_SEPARATED;
            choose_shift(w, r, 1e-3);
        }
    }
    return w;
}

Op gen_init(Rng& r, const WorldSpec& w, bool allow_zero)
{
    Op o;
    double x = r.real01();
    if (allow_zero && x < 0.05)
        o.kind = OP_INITZERO;
    else if (x < 0.45)
        o.kind = OP_INIT0;
    else
    {
        o.kind = OP_INITV;
        o.vclass = weighted(r, {{V_GENERIC, 5}, {V_INVARIANT, w.mclass == M_BLOCKDIAG ? 4.0 : 1.0}, {V_TINY, 0.7}, {V_HUGE, 0.7}, {V_COORD, 1},
                                {V_WARM, 0.0}});  // warm starts hit KF-near-invariant-start on the pinned tree even for nev == 1: not generated
        o.vseed = r.next();
    }
    return o;
}

Op gen_compute(Rng& r, const WorldSpec& w, const std::string& prop, bool allow_bad)
{
    Op o;
    o.kind = OP_COMPUTE;
    auto sel = selection_rules(w.family);
    auto srt = sorting_rules(w.family);
    o.sel = r.pick(sel);
    o.sort = r.pick(srt);
    if (allow_bad && r.chance(0.04)) o.sel = family_is_general(w.family) ? (r.chance(0.5) ? R_LA : R_BE) : (r.chance(0.5) ? R_LR : R_SI);
    if (allow_bad && r.chance(0.04)) o.sort = family_is_general(w.family) ? R_BE : (r.chance(0.5) ? R_BE : R_LR);
    const bool partial_heavy = (prop == "C01" || prop == "C02" || prop == "C03" || prop == "C05");
    double x = r.real01();
    if (x < (partial_heavy ? 0.10 : 0.05)) o.maxit = 0;
    else if (x < (partial_heavy ? 0.22 : 0.10)) o.maxit = 1;
    else if (x < (partial_heavy ? 0.32 : 0.15)) o.maxit = 2;
    else if (x < (partial_heavy ? 0.55 : 0.35)) o.maxit = 3 + (long) r.below(18);
    else o.maxit = r.chance(0.5) ? 1000 : 300;
    if (const char* e = std::getenv("SIM_MAXIT_CAP")) o.maxit = std::min<long>(o.maxit, std::atol(e));
    const double lo = std::log10(tol_floor(w.scalar));
    if (r.chance(0.3)) o.tol = std::max(1e-10, tol_floor(w.scalar));
    else o.tol = std::pow(10.0, r.real(std::max(lo, -13.0), -2.0));
    return o;
}

static Op gen_read(Rng& r, const WorldSpec& w)
{
    Op o;
    o.kind = OP_READ;
    o.readmask = 1 + (int) r.below(63);
    o.nvec = (long) r.below((uint64_t) w.nev + 3);
    return o;
}

static void maybe_fault(Rng& rf, const WorldSpec& w, Op& o, double p)
{
    if (!rf.chance(p)) return;
    Fault f;
    f.target = (family_has_B(w.family) && rf.chance(0.4)) ? 1 : 0;
    if (o.kind == OP_COMPUTE)
        f.at = 1 + (long) rf.below((uint64_t) (rf.chance(0.5) ? w.ncv : 4 * w.ncv));
    else
        f.at = 1 + (long) rf.below(f.target == 1 ? 6 : 2);
    f.type = (int) rf.below(3);
    o.faults.push_back(f);
}

std::vector<Op> gen_script(const std::string& prop, const WorldSpec& w, uint64_t run_seed, const GenOpts& o)
{
    Rng r = stream(run_seed, "script");
    Rng rf = stream(run_seed, "fault");
    std::vector<Op> s;
    if (w.family == F_SVD)
    {
        const int ncomp = 1 + (int) r.below(o.thorough ? 6 : 4);
        for (int i = 0; i < ncomp; i++)
        {
            Op c;
            c.kind = OP_SVDCOMPUTE;
            double x = r.real01();
            c.maxit = x < 0.15 ? 1 : (x < 0.3 ? 2 + (long) r.below(5) : 1000);
            c.tol = r.chance(0.3) ? std::max(1e-10, tol_floor(w.scalar)) : std::pow(10.0, r.real(w.scalar == S_FLOAT ? -6 : -14.5, -2));
            s.push_back(c);
            if (r.chance(0.6))
            {
                Op rd;
                rd.kind = OP_READ;
                rd.readmask = 1 + (int) r.below(7);  // bit0 singular values, bit1 U, bit2 V
                rd.nvec = (long) r.below((uint64_t) w.nev + 3);
                s.push_back(rd);
            }
        }
        return s;
    }
    if (o.single_shot)
    {
        s.push_back(gen_init(r, w, false));
        Op c = gen_compute(r, w, prop, false);
        c.maxit = r.chance(0.7) ? 1000 : c.maxit;
        if (const char* e = std::getenv("SIM_MAXIT_CAP")) c.maxit = std::min<long>(c.maxit, std::atol(e));
        s.push_back(c);
        return s;
    }
    const bool with_faults = !o.no_faults && rf.chance(0.4);
    const double pf = with_faults ? 0.15 : 0.0;
    const int maxlen = o.thorough ? 16 : 8;
    const bool refinement = (prop == "C06");
    int len = (int) r.below((uint64_t) maxlen + 1);
    if (!refinement) len = std::max(len, 2);
    // first op: an init (compute() on a never-initialised object is outside the documented protocol)
    if (len > 0)
    {
        Op i0 = gen_init(r, w, false);
        maybe_fault(rf, w, i0, pf * 0.5);
        s.push_back(i0);
    }
    bool need_init = !s.empty() && !s[0].faults.empty();  // a faulted first init: re-init before anything else
    while ((int) s.size() < len)
    {
        if (need_init)
        {
            s.push_back(gen_init(r, w, false));
            need_init = false;
            continue;
        }
        double x = r.real01();
        Op op;
        if (x < 0.30) op = gen_init(r, w, true);
        else if (x < 0.80) op = gen_compute(r, w, prop, true);
        else op = gen_read(r, w);
        if (op.kind != OP_READ) maybe_fault(rf, w, op, pf);
        s.push_back(op);
    }
    if (refinement)
    {
        // the observed pair
        Op i1 = gen_init(r, w, false);
        Op c1 = gen_compute(r, w, prop, false);
        s.push_back(i1);
        s.push_back(c1);
    }
    return s;
}

Plan gen_hist_plan(const std::string& prop, uint64_t run_seed, const GenOpts& o)
{
    Plan p;
    p.prop = prop;
    p.mode = (prop == "C16") ? "svd" : "hist";
    p.run_seed = run_seed;
    TaskSpec t;
    t.w = gen_world(prop, run_seed, o);
    t.script = gen_script(prop, t.w, run_seed, o);
    p.tasks.push_back(t);
    return p;
}

}  // namespace sim

namespace sim {
Plan gen_plan_for(const std::string& prop, uint64_t run_seed, const GenOpts& o)
{
    if (prop == "C14") return gen_fault_plan(run_seed, o);
    if (prop == "C20") return gen_sched_plan(run_seed, o);
    // C07: half of the runs observe real solver runs, half drive the factorization classes directly
    if (prop == "C07" && !o.single_shot && (run_seed & 1)) return gen_krylov_plan(run_seed, o);
    return gen_hist_plan(prop, run_seed, o);
}
}  // namespace sim

namespace sim {
// C14 worlds: the observed pair init(v); compute(a) with moderate work so that every k can be enumerated
Plan gen_fault_plan(uint64_t run_seed, const GenOpts& o)
{
    Plan p;
    p.prop = "C14";
    p.mode = "fault";
    p.run_seed = run_seed;
    GenOpts g = o;
    Rng r = stream(run_seed, "script");
    static const int fams[] = {F_SYM, F_HERM, F_SYMSHIFT, F_GEN, F_GENRSHIFT, F_GENCSHIFT, F_GCHOL, F_GREGINV, F_GSHIFTINV, F_GBUCK, F_GCAYLEY};
    if (g.force_family < 0) g.force_family = fams[(o.index >= 0 ? (uint64_t) o.index : run_seed) % 11];
    TaskSpec t;
    t.w = gen_world("C14", run_seed, g);
    // keep worlds small: the enumeration re-runs the pair once or twice per application
    if (t.w.n > (o.thorough ? 40 : 24))
    {
        t.w.n = o.thorough ? 40 : 24;
        t.w.ncv = std::min(t.w.ncv, t.w.n);
        t.w.nev = std::min(t.w.nev, t.w.ncv - (family_is_general(t.w.family) ? 2 : 1));
        if (t.w.mclass == M_BLOCKDIAG) t.w.nblock = std::min(t.w.nblock, t.w.n - 1);
        if (t.w.mclass == M_LOWRANK) t.w.rank = std::min(t.w.rank, t.w.n);
    }
    if (t.w.family == F_GREGINV) t.w.kappaB = std::min(t.w.kappaB, 100.0);
    Op i0 = gen_init(r, t.w, false);
    Op c0 = gen_compute(r, t.w, "C14", false);
    c0.maxit = std::min<long>(c0.maxit, o.thorough ? 30 : 12);
    t.script.push_back(i0);
    t.script.push_back(c0);
    p.tasks.push_back(t);
    p.params.set("cap_per_site", o.thorough ? 1500 : 300).set("pairs", o.thorough ? 200 : 24);
    return p;
}
}  // namespace sim

namespace sim {
// C20: 2..16 tasks with short scripts; operators private, or one shared read-only product wrapper
Plan gen_sched_plan(uint64_t run_seed, const GenOpts& o)
{
    Plan p;
    p.prop = "C20";
    p.mode = "sched";
    p.run_seed = run_seed;
    Rng r = stream(run_seed, "schedule");
    Rng rs = stream(run_seed, "script");
    int T = 2 + (int) r.below(3);
    if (o.thorough && r.chance(0.4)) T = 2 + (int) r.below(15);
    p.policy = (int) r.below(4);
    static const double ps[] = {0.02, 0.1, 0.5};
    p.policy_p = ps[r.below(3)];
    p.sched_seed = r.next();
    // half of the runs additionally pre-empt at seeded basic-block edges inside the library code (log-uniform mean gap)
    if (!o.no_edge_preemption && r.chance(0.5)) p.edge_gap = (long) std::llround(std::pow(10.0, 2.0 + 3.0 * r.real01()));
    const bool shared = r.chance(0.4);
    // hidden shared state is typically per template instantiation and often guarded by a size threshold ("larger than a
    // page"): a share of the runs puts solvers of ONE family side by side, and a share uses worlds whose work arrays
    // exceed a few kilobytes (n up to 64, nev up to 10)
    const bool same_family = !shared && r.chance(0.4);
    const bool big = r.chance(0.15);
    if (big && T > 3) T = 2 + (int) r.below(2);
    // "all solver classes": a share of the runs puts DavidsonSymEigsSolver objects, instantiated directly on the library's
    // product wrappers (private ones, or ONE shared const wrapper), side by side. They have no operator seam: their yield
    // points are the API boundaries and the seeded basic-block edges, so edge pre-emption is always on for them.
    if (o.force_family < 0 ? r.chance(0.12) : o.force_family == F_DAVIDSON)
    {
        if (p.edge_gap == 0) p.edge_gap = (long) std::llround(std::pow(10.0, 2.0 + 3.0 * r.real01()));
        const bool dshared = r.chance(0.6);
        if (T > 4) T = 2 + (int) r.below(3);
        WorldSpec w0;
        for (int t = 0; t < T; t++)
        {
            TaskSpec ts;
            Rng rw = stream(mix64(run_seed, 0xDA71D + (uint64_t) t), "world");
            if (t == 0 || !dshared)
            {
                ts.w.family = F_DAVIDSON;
                ts.w.scalar = S_DOUBLE;
                ts.w.n = 16 + (int) rw.below(45);
                ts.w.mclass = weighted(rw, {{M_RANDOM, 3}, {M_SEPARATED, 3}, {M_SPARSEPAT, 2}, {M_CLUSTERED, 1}});
                ts.w.variant = rw.chance(0.4) ? 1 : 0;
                ts.w.scale = 1.0;
                ts.w.mseed = rw.next();
                w0 = ts.w;
            }
            else
                ts.w = w0;
            ts.w.nev = 1 + (int) rw.below(6);
            ts.w.ncv = std::min(ts.w.n, 10 * ts.w.nev);
            if (dshared) ts.share = 0;
            Op c0;
            c0.kind = OP_COMPUTE;
            c0.sel = rs.chance(0.5) ? R_LA : R_SA;
            c0.sort = c0.sel;
            c0.maxit = 1 + (long) rs.below(12);
            c0.tol = std::pow(10.0, rs.real(-10.0, -4.0));
            ts.script.push_back(c0);
            if (rs.chance(0.3)) { Op c1 = c0; c1.maxit = 1 + (long) rs.below(6); ts.script.push_back(c1); }
            p.tasks.push_back(ts);
        }
        return p;
    }
    // PartialSVDSolver tasks (each on its own matrix: the solver builds its operator internally); edge pre-emption always on
    if (o.force_family < 0 ? r.chance(0.06) : o.force_family == F_SVD)
    {
        if (p.edge_gap == 0) p.edge_gap = (long) std::llround(std::pow(10.0, 2.0 + 3.0 * r.real01()));
        if (T > 4) T = 2 + (int) r.below(3);
        GenOpts gs = o;
        gs.thorough = false;
        gs.force_family = F_SVD;
        for (int t = 0; t < T; t++)
        {
            TaskSpec ts;
            ts.w = gen_world("C16", mix64(run_seed, 0x5FD20 + (uint64_t) t), gs);
            ts.w.scalar = S_DOUBLE;
            Op c0;
            c0.kind = OP_COMPUTE;
            c0.maxit = 1 + (long) rs.below(20);
            c0.tol = std::pow(10.0, rs.real(-10.0, -4.0));
            ts.script.push_back(c0);
            if (rs.chance(0.3)) { Op c1 = c0; c1.maxit = 1 + (long) rs.below(6); ts.script.push_back(c1); }
            p.tasks.push_back(ts);
        }
        return p;
    }
    GenOpts g = o;
    g.thorough = false;
    TaskSpec first;
    for (int t = 0; t < T; t++)
    {
        TaskSpec ts;
        const uint64_t sub = mix64(run_seed, 0xC20 + (uint64_t) t);
        if (shared && t > 0)
        {
            // same matrix and wrapper as task 0, own (nev, ncv) and script
            ts.w = first.w;
            Rng rw = stream(sub, "world");
            const int nev_hi = std::min(6, ts.w.n - (family_is_general(ts.w.family) ? 3 : 2));
            ts.w.nev = 1 + (int) rw.below((uint64_t) std::max(1, nev_hi));
            const int lo = min_ncv(ts.w.family, ts.w.nev);
            ts.w.ncv = std::min(ts.w.n, lo + (int) rw.below(8));
            ts.share = 0;
        }
        else
        {
            if (shared) { static const int sf[] = {F_SYM, F_GEN, F_HERM}; g.force_family = sf[r.below(3)]; }
            else g.force_family = (same_family && t > 0) ? first.w.family : o.force_family;
            ts.w = gen_world("C20", sub, g);
            if (big)
            {
                Rng rb = stream(sub, "big-world");
                const int gen = family_is_general(ts.w.family) ? 1 : 0;
                ts.w.n = 40 + (int) rb.below(25);
                ts.w.nev = 4 + (int) rb.below(7);
                ts.w.ncv = std::min(ts.w.n, std::max(min_ncv(ts.w.family, ts.w.nev), 2 * ts.w.nev + 1 + (int) rb.below(8)));
                ts.w.nev = std::min(ts.w.nev, ts.w.ncv - 1 - gen);
                if (ts.w.mclass == M_BLOCKDIAG) ts.w.nblock = std::min(ts.w.nblock, ts.w.n - 1);
                if (ts.w.mclass == M_LOWRANK) ts.w.rank = std::min(ts.w.rank, ts.w.n);
            }
            else if (ts.w.n > 30)
            {
                ts.w.n = 30;
                ts.w.ncv = std::min(ts.w.ncv, ts.w.n);
                ts.w.nev = std::min(ts.w.nev, ts.w.ncv - (family_is_general(ts.w.family) ? 2 : 1));
                if (ts.w.mclass == M_BLOCKDIAG) ts.w.nblock = std::min(ts.w.nblock, ts.w.n - 1);
                if (ts.w.mclass == M_LOWRANK) ts.w.rank = std::min(ts.w.rank, ts.w.n);
            }
            if (shared) ts.share = 0;  // the owner runs on a view of its own wrapper as well
        }
        Op i0 = gen_init(rs, ts.w, false);
        Op c0 = gen_compute(rs, ts.w, "C20", false);
        c0.maxit = std::min<long>(c0.maxit, 8);
        ts.script.push_back(i0);
        ts.script.push_back(c0);
        if (rs.chance(0.3))
        {
            Op c1 = gen_compute(rs, ts.w, "C20", false);
            c1.maxit = std::min<long>(c1.maxit, 4);
            ts.script.push_back(c1);
        }
        if (t == 0) first = ts;
        p.tasks.push_back(ts);
    }
    // cross-task isolation: one task's operator fails
    if (!o.no_faults && r.chance(0.1))
    {
        TaskSpec& v = p.tasks[r.below((uint64_t) T)];
        Fault f;
        f.target = 0;
        f.at = 1 + (long) r.below((uint64_t) v.w.ncv);
        f.type = (int) r.below(3);
        v.script[1].faults.push_back(f);
    }
    return p;
}
}  // namespace sim

namespace sim {
// C07 direct driver: init, extend, up to 12 restarts with exact-Ritz / arbitrary / conjugate-pair shifts
Plan gen_krylov_plan(uint64_t run_seed, const GenOpts& o)
{
    Plan p;
    p.prop = "C07";
    p.mode = "krylov";
    p.run_seed = run_seed;
    Rng r = stream(run_seed, "script");
    GenOpts g = o;
    static const int fams[] = {F_SYM, F_SYM, F_HERM, F_GEN, F_GEN, F_GREGINV};
    g.force_family = fams[r.below(6)];
    TaskSpec t;
    t.w = gen_world("C07", run_seed, g);
    // arbitrary (non-Ritz) shifts on a rank-deficient operator leave the pinned tree's breakdown handling with O(1)
    // orthogonality errors (KF-arnoldi-breakdown family): the direct driver uses full-rank operators
    if (t.w.mclass == M_LOWRANK) t.w.mclass = M_SEPARATED;
    if (t.w.ncv > 20) t.w.ncv = 20;
    if (t.w.ncv < 3 && t.w.n >= 3) t.w.ncv = 3;
    t.w.nev = std::min(t.w.nev, t.w.ncv - (family_is_general(t.w.family) ? 2 : 1));
    if (t.w.nev < 1) t.w.nev = 1;
    if (t.w.mclass == M_BLOCKDIAG) t.w.nblock = 1 + (int) r.below((uint64_t) std::max(1, std::min(t.w.ncv - 1, t.w.n - 1)));
    const long m = t.w.ncv;
    Op i0 = gen_init(r, t.w, false);
    if (i0.kind == OP_INIT0) { i0.kind = OP_INITV; i0.vclass = V_GENERIC; i0.vseed = r.next(); }
    t.script.push_back(i0);
    if (r.chance(0.6))
    {
        Op e;
        e.kind = OP_KEXTEND;
        e.maxit = 2 + (long) r.below((uint64_t) std::max<long>(1, m - 1));
        t.script.push_back(e);
    }
    const int nrestart = (int) r.below(family_is_general(t.w.family) ? 9 : 13);
    for (int i = 0; i < nrestart; i++)
    {
        Op rs;
        rs.kind = OP_KRESTART;
        rs.maxit = 1 + (long) r.below((uint64_t) std::max<long>(1, m - 1));
        rs.sel = (int) r.below(3);
        rs.vseed = r.next();
        t.script.push_back(rs);
        if (r.chance(0.1))
        {
            Op i1 = gen_init(r, t.w, false);
            if (i1.kind == OP_INIT0) { i1.kind = OP_INITV; i1.vclass = V_GENERIC; i1.vseed = r.next(); }
            t.script.push_back(i1);
        }
    }
    p.tasks.push_back(t);
    return p;
}
}  // namespace sim
