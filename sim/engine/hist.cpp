// Single-task history runs: C01, C02, C03 (numeric clauses after any history), C05 (consistency),
// C06 (bitwise refinement against a fresh solver), C07 (in-solver Krylov observer).
#include "run.h"
#include "exec.h"
#include "gen.h"
#include <cstdio>
#include <cstdlib>

namespace sim {

static const long kMaxRestartsForVerdict = 15;
// the drift grows by a constant factor per restart whatever the precision: relative to eps it shows earlier in long double
static const long kMaxRestartsForVerdictLD = 8;

static int outcome_class(const Op& op, const OpRecord& rec)
{
    if (!rec.res.threw)
    {
        if (op.kind == OP_COMPUTE && rec.has_snap) return rec.snap.info == 0 ? 1 : 2;  // Successful / NotConverging
        return 0;
    }
    if (rec.res.exc == X_INVALID_ARG) return 3;
    if (rec.res.exc == X_SIMFAULT || rec.res.exc == X_SIMRUNTIME || rec.res.exc == X_INT) return 4;
    return 5;
}

static void note_out_of_scope(RunStats& st, const OpRecord& rec)
{
    if (rec.san_reports > 0) st.add("oos.sanitizer_report", rec.san_reports);
    if (rec.res.threw)
    {
        switch (rec.res.exc)
        {
            case X_EIGEN_ASSERT: st.add("oos.eigen_assertion"); break;
            case X_SEAM_BUFFER: st.add("oos.seam_buffer"); break;
            case X_WORKCAP: st.add("oos.work_cap"); break;
            case X_RUNTIME: st.add("oos.runtime_error"); break;
            case X_STDEXC: st.add("oos.std_exception"); break;
            case X_UNKNOWN: st.add("oos.unknown_exception"); break;
            default: break;
        }
    }
    if (rec.read_res.threw) st.add("oos.accessor_threw");
}

static void note_faults(RunStats& st, const Op& op, const OpRecord& rec)
{
    for (int t = 0; t < 2; t++)
    {
        if (!rec.armed[t]) continue;
        const char* tn = t == 0 ? "A" : "B";
        if (rec.fired[t])
        {
            st.add(std::string("fault.fired.") + tn);
            st.add(std::string("fault.fired.") + tn + "." + opkind_name(op.kind) + ".phase_" + (rec.fired_phase[t] < 0 ? "start" : checkpoint_name(rec.fired_phase[t])));
        }
        else
            st.add(std::string("fault.not_fired.") + tn);
    }
}

static bool same_outcome(const OpRecord& a, const OpRecord& b)
{
    if (a.res.threw != b.res.threw) return false;
    if (a.res.threw) return a.res.exc == b.res.exc;
    if (a.res.ret != b.res.ret) return false;
    if (a.has_snap != b.has_snap) return false;
    return !a.has_snap || a.snap.same_bits(b.snap);
}

static std::string describe_diff(const OpRecord& a, const OpRecord& b)
{
    if (a.res.threw != b.res.threw || (a.res.threw && a.res.exc != b.res.exc))
        return std::string("outcomes differ: ") + (a.res.threw ? exc_name(a.res.exc) : "returned") + " vs " + (b.res.threw ? exc_name(b.res.exc) : "returned");
    if (a.res.threw) return "";
    char buf[256];
    const Snapshot &x = a.snap, &y = b.snap;
    std::snprintf(buf, sizeof buf, "ret %ld/%ld info %d/%d niter %ld/%ld nops %ld/%ld nvals %ld/%ld values %s vectors %s", x.ret, y.ret, x.info,
                  y.info, x.niter, y.niter, x.nops, y.nops, x.nvals, y.nvals, x.val_bytes == y.val_bytes ? "equal" : "DIFFER",
                  x.vec_bytes == y.vec_bytes ? "equal" : "DIFFER");
    return buf;
}

RunOutput run_hist(const Plan& plan, const RunOpts& o)
{
    RunOutput out;
    const TaskSpec& task = plan.tasks.at(0);
    const WorldSpec& spec = task.w;
    const std::string& prop = plan.prop;
    const int cgroup = (spec.mclass == M_LOWRANK) ? 1 : 0;
    const Calib& calib = Calib::get(spec.family, cgroup);
    Hasher shape;
    shape.u64((uint64_t) spec.family);
    out.stats.add(std::string("family.") + family_name(spec.family));
    out.stats.add(std::string("scalar.") + scalar_name(spec.scalar));
    out.stats.add(std::string("mclass.") + mclass_name(spec.mclass));
    out.stats.add("runs");

    std::unique_ptr<Session> alpha;
    try
    {
        alpha.reset(new Session(spec));
        alpha->construct_solver();
    }
    catch (const std::exception& e)
    {
        out.stats.add("construct_threw");
        out.event_hash = 1;
        return out;
    }
    catch (const EigenAssertion&)
    {
        out.stats.add("construct_threw");
        out.event_hash = 1;
        return out;
    }
    WorldRef ref;
    KrylovObserver obs;
    const bool observe = o.observe_krylov || prop == "C07";
    if (observe)
    {
        build_ref_op(*alpha->world, ref);
        obs.ref = &ref;
        obs.lanczos = family_symmetric_like(spec.family);
        obs.identity_ip = !(spec.family == F_GREGINV || spec.family == F_GSHIFTINV || spec.family == F_GBUCK || spec.family == F_GCAYLEY);
        obs.calib = &calib;
        obs.max_restarts = (spec.scalar == S_LDOUBLE) ? kMaxRestartsForVerdictLD : kMaxRestartsForVerdict;
        obs.general = family_is_general(spec.family) && !(plan.params.has("no_regime_skip") && plan.params.at("no_regime_skip").as_bool());
        obs.out = &out.viol;
        alpha->ctx.observer = &obs;
    }
    if (spec.family != F_SVD)
    {
        build_ref_op(*alpha->world, ref);
        alpha->ctx.beta_scale = ref.normOp;
    }
    // replay files of the known findings switch the regime exclusion off (params.no_regime_skip)
    const bool no_regime_skip = plan.params.has("no_regime_skip") && plan.params.at("no_regime_skip").as_bool();
    const bool numeric_on = (prop == "C01" || prop == "C02" || prop == "C03") && prop == numeric_prop_of_family(spec.family);
    const bool consistency_on = (prop == "C05");
    const bool refine_on = (prop == "C06");
    NumStats nst;

    // C05: before any compute(), info() is NotComputed and the accessors return empty objects
    if (consistency_on)
    {
        Snapshot s0;
        ApiResult r0 = alpha->take_snapshot(s0, -1);
        if (r0.threw || s0.info != 1 || s0.nvals != 0 || s0.vcols != 0)
        {
            Violation v;
            v.prop = "C05";
            v.clause = "initial-state";
            v.op_index = -1;
            v.detail = "fresh object: info()=" + std::to_string(s0.info) + " eigenvalues().size()=" + std::to_string(s0.nvals) + " eigenvectors().cols()=" + std::to_string(s0.vcols) + (r0.threw ? " (accessor threw)" : "");
            out.viol.push_back(v);
        }
    }
    std::vector<unsigned char> probe0;
    if (refine_on) alpha->world->probe(probe0);

    const size_t nops = task.script.size();
    const size_t observed_from = (refine_on && nops >= 2) ? nops - 2 : nops;
    // C06 variant: a second solver on the same operator object, created up front and driven in lock-step
    // with alpha during the observed pair, or created after alpha finished
    Rng rv = stream(plan.run_seed, "variant");
    const bool gamma_interleaved = refine_on && rv.chance(0.5);
    std::unique_ptr<Session> gamma;
    std::vector<OpRecord> alpha_obs, gamma_obs;
    bool returned_compute = false;

    for (size_t i = 0; i < nops; i++)
    {
        Op op = task.script[i];
        if (i >= observed_from) op.faults.clear();
        if (refine_on && i == observed_from && gamma_interleaved)
        {
            gamma.reset(new Session(alpha->world));
            gamma->construct_solver();
        }
        obs.op_index = (int) i;
        const size_t nviol_before = out.viol.size();
        obs.out = alpha->tainted ? nullptr : &out.viol;  // after a propagated fault the state is unspecified until init()
        OpRecord rec = alpha->exec(op, (int) i);
        shape.u64(((uint64_t) op.kind << 8) | (uint64_t) outcome_class(op, rec));
        out.stats.add(std::string("op.") + opkind_name(op.kind));
        out.stats.add(std::string("outcome.") + (rec.res.threw ? exc_name(rec.res.exc) : (op.kind == OP_COMPUTE ? (rec.snap.info == 0 ? "Successful" : "NotConverging") : "returned")));
        note_out_of_scope(out.stats, rec);
        note_faults(out.stats, op, rec);
        const bool oos = rec.san_reports > 0 || rec.read_res.threw;
        if (op.kind == OP_COMPUTE && rec.has_snap && !rec.tainted_before && !oos)
        {
            returned_compute = true;
            if (rec.snap.ret > 0 && rec.snap.ret < spec.nev) out.stats.add("compute.partial");
            if (rec.computes_since_init > 1) out.stats.add("compute.without_init");
            // The general (Arnoldi) solvers of the pinned tree lose the orthonormality of the basis over many
            // implicit restarts (known finding KF-arnoldi-restart-drift): numeric clauses give a verdict only
            // while at most 15 restarts happened since init()
            const bool numeric_regime = no_regime_skip || !(family_is_general(spec.family) && rec.restarts_since_init > (spec.scalar == S_LDOUBLE ? kMaxRestartsForVerdictLD : kMaxRestartsForVerdict));
            if (!numeric_regime) out.stats.add("numeric.skipped_known_regime");
            if (numeric_on && numeric_regime)
            {
                NumStats one;
                check_eigenpairs(*alpha->world, ref, rec.snap, (long double) op.tol, calib, prop.c_str(), (int) i, out.viol, one);
                nst.merge(one);
                if (std::getenv("SIM_DUMP_RATIOS") && one.pairs > 0)
                    std::printf("{\"type\":\"ratio\",\"family\":%d,\"mclass\":%d,\"beta\":%.3Lg,\"expands\":%ld,\"restarts\":%ld,\"norm\":%.3Lg,\"orth\":%.3Lg,\"excess\":%.3Lg,\"ncv_eq_n\":%d}\n", spec.family, spec.mclass,
                                rec.min_beta_rel, rec.expands, rec.restarts_since_init, one.max_ratio_norm, one.max_ratio_orth, one.max_ratio_round, (int) (spec.ncv == spec.n));
            }
            if (consistency_on)
            {
                const bool pairing_regime = numeric_regime;
                ConsistencyInput in;
                in.family = spec.family;
                in.nev = spec.nev;
                in.ret = rec.res.ret;
                in.maxit = op.maxit;
                in.sort = op.sort;
                in.full = &rec.snap;
                Snapshot part;
                const long m = (long) ((i * 7 + 3) % (size_t) (spec.nev + 3));
                ApiResult pr = alpha->take_snapshot(part, m);
                if (!pr.threw)
                {
                    in.partial = &part;
                    in.partial_m = m;
                }
                in.seam_applications_since_init = rec.seamA_since_init;
                in.restarts_in_call = rec.restarts;
                in.computes_since_init = rec.compute_attempts_since_init;
                in.eps = alpha->world->eps;
                check_consistency(in, (int) i, out.viol);
                // pairing: the i-th value belongs to the i-th column
                std::vector<Violation> pv;
                NumStats tmp;
                if (pairing_regime) check_eigenpairs(*alpha->world, ref, rec.snap, (long double) op.tol, calib, "C05", (int) i, pv, tmp);
                nst.merge(tmp);
                for (auto& v : pv)
                    if (v.clause == "residual")
                    {
                        v.clause = "pairing";
                        out.viol.push_back(v);
                    }
            }
            if (refine_on)
            {
                std::vector<unsigned char> p1;
                alpha->world->probe(p1);
                if (p1 != probe0)
                {
                    Violation v;
                    v.prop = "C06";
                    v.clause = "operator-changed";
                    v.op_index = (int) i;
                    v.detail = "operator probe after compute() differs from the probe taken after construction";
                    out.viol.push_back(v);
                }
            }
        }
        for (size_t vi = nviol_before; vi < out.viol.size(); vi++)
        {
            out.viol[vi].min_beta_rel = (double) rec.min_beta_rel;
            out.viol[vi].expands = rec.expands;
            out.viol[vi].restarts = rec.restarts_since_init;
        }
        if (i >= observed_from)
        {
            alpha_obs.push_back(rec);
            if (gamma && gamma_interleaved) gamma_obs.push_back(gamma->exec(op, (int) i));
        }
    }
    out.nontrivial = returned_compute;
    // ---- C06: bitwise refinement of the observed pair ----
    if (refine_on && alpha_obs.size() == 2)
    {
        std::vector<OpRecord> beta_obs;
        {
            Session beta(spec);
            beta.construct_solver();
            for (size_t i = observed_from; i < nops; i++)
            {
                Op op = task.script[i];
                op.faults.clear();
                beta_obs.push_back(beta.exec(op, (int) i));
            }
        }
        if (!gamma_interleaved)
        {
            gamma.reset(new Session(alpha->world));
            gamma->construct_solver();
            for (size_t i = observed_from; i < nops; i++)
            {
                Op op = task.script[i];
                op.faults.clear();
                gamma_obs.push_back(gamma->exec(op, (int) i));
            }
        }
        out.stats.add(gamma_interleaved ? "c06.gamma_interleaved" : "c06.gamma_after");
        const bool oos = alpha_obs[0].san_reports || alpha_obs[1].san_reports;
        if (!oos)
        {
            for (int k = 0; k < 2; k++)
            {
                if (!same_outcome(alpha_obs[k], beta_obs[k]))
                {
                    Violation v;
                    v.prop = "C06";
                    v.clause = "reused-vs-fresh";
                    v.op_index = (int) (observed_from + k);
                    v.detail = "solver reused after a history of " + std::to_string(observed_from) + " ops vs freshly constructed solver: " + describe_diff(alpha_obs[k], beta_obs[k]);
                    out.viol.push_back(v);
                    break;
                }
            }
            for (int k = 0; k < 2; k++)
            {
                if (!same_outcome(gamma_obs[k], beta_obs[k]))
                {
                    Violation v;
                    v.prop = "C06";
                    v.clause = gamma_interleaved ? "shared-operator-interleaved" : "shared-operator";
                    v.op_index = (int) (observed_from + k);
                    v.detail = "second solver sharing the operator object vs freshly constructed solver on a fresh operator: " + describe_diff(gamma_obs[k], beta_obs[k]);
                    out.viol.push_back(v);
                    break;
                }
            }
        }
        if (alpha_obs[1].has_snap) out.event_hash ^= alpha_obs[1].snap.hash();
    }
    gamma.reset();
    // ---- stats ----
    out.stats.add("operator.set_shift_calls", alpha->world->ctlA.setshift_total);
    out.stats.add("events", alpha->ctx.nevents);
    out.stats.add("applications.A", alpha->ctx.n_apply[0]);
    out.stats.add("applications.B", alpha->ctx.n_apply[1]);
    for (int k = 0; k < CK_COUNT; k++) out.stats.add(std::string("checkpoint.") + checkpoint_name(k), alpha->ctx.n_checkpoint[k]);
    if (numeric_on || consistency_on)
    {
        out.stats.add("pairs_checked", nst.pairs);
        out.stats.add("pairs_degenerate_shift", nst.degenerate);
        out.stats.max("ratio.residual_over_tolterm" + std::string(cgroup ? ".lowrank." : ".") + family_name(spec.family), (double) nst.max_ratio_tol);
        out.stats.max("ratio.excess_over_rounding_unit" + std::string(cgroup ? ".lowrank." : ".") + family_name(spec.family), (double) nst.max_ratio_round);
        out.stats.max("ratio.norm_over_unit" + std::string(cgroup ? ".lowrank." : ".") + family_name(spec.family), (double) nst.max_ratio_norm);
        out.stats.max("ratio.orth_over_unit" + std::string(cgroup ? ".lowrank." : ".") + family_name(spec.family), (double) nst.max_ratio_orth);
    }
    if (observe)
    {
        for (int k = 0; k < CK_COUNT; k++) out.stats.add(std::string("krylov.checked.") + checkpoint_name(k), obs.stats.checked[k]);
        out.stats.add("krylov.breakdowns", obs.stats.breakdowns);
        out.stats.max("ratio.krylov_factorization" + std::string(cgroup ? ".lowrank." : ".") + family_name(spec.family), (double) obs.stats.max_fac);
        out.stats.max("ratio.krylov_orthonormality" + std::string(cgroup ? ".lowrank." : ".") + family_name(spec.family), (double) obs.stats.max_orth);
        out.stats.max("ratio.krylov_vf" + std::string(cgroup ? ".lowrank." : ".") + family_name(spec.family), (double) obs.stats.max_vf);
        if (!ref.op_independent) out.stats.add("krylov.op_from_wrappers");
        out.stats.add("krylov.skipped_known_regime", obs.skipped_known_regime);
    }
    out.event_hash ^= alpha->ctx.log.h;
    out.shape_hash = shape.h;
    return out;
}

}  // namespace sim
