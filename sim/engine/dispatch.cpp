#include "run.h"
namespace sim {
RunOutput run_plan(const Plan& plan, const RunOpts& o)
{
    try
    {
        if (plan.mode == "hist") return run_hist(plan, o);
        if (plan.mode == "svd") return run_svd(plan, o);
        if (plan.mode == "fault") return run_fault(plan, o);
        if (plan.mode == "sched") return run_sched(plan, o);
        if (plan.mode == "krylov") return run_krylov(plan, o);
    }
    catch (const std::exception& e)
    {
        RunOutput r;
        r.engine_error = std::string("engine exception: ") + e.what();
        return r;
    }
    RunOutput r;
    r.engine_error = "unknown mode " + plan.mode;
    return r;
}
}  // namespace sim
