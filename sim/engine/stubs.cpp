#include "run.h"
namespace sim {
__attribute__((weak)) RunOutput run_svd(const Plan&, const RunOpts&) { RunOutput r; r.engine_error = "svd mode not built"; return r; }
__attribute__((weak)) RunOutput run_fault(const Plan&, const RunOpts&) { RunOutput r; r.engine_error = "fault mode not built"; return r; }
__attribute__((weak)) RunOutput run_sched(const Plan&, const RunOpts&) { RunOutput r; r.engine_error = "sched mode not built"; return r; }
__attribute__((weak)) RunOutput run_krylov(const Plan&, const RunOpts&) { RunOutput r; r.engine_error = "krylov mode not built"; return r; }
}
