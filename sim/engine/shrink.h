#pragma once
#include "run.h"
namespace sim {
Plan shrink_plan(const Plan& start, const std::string& cls, const RunOpts& o, int budget, int* used);
}
