// Result of one simulated run, and the per-mode runners.
#pragma once
#include <map>
#include <string>
#include <vector>
#include "../core/plan.h"
#include "../oracle/oracles.h"

namespace sim {

struct RunStats
{
    std::map<std::string, long long> cnt;
    std::map<std::string, double> mx;
    void add(const std::string& k, long long v = 1) { cnt[k] += v; }
    void max(const std::string& k, double v)
    {
        auto it = mx.find(k);
        if (it == mx.end() || v > it->second) mx[k] = v;
    }
    void merge(const RunStats& o)
    {
        for (auto& kv : o.cnt) cnt[kv.first] += kv.second;
        for (auto& kv : o.mx) max(kv.first, kv.second);
    }
    Json to_json() const
    {
        Json j = Json::object(), c = Json::object(), m = Json::object();
        for (auto& kv : cnt) c.set(kv.first, (long long) kv.second);
        for (auto& kv : mx) m.set(kv.first, kv.second);
        j.set("cnt", c).set("max", m);
        return j;
    }
};

struct RunOutput
{
    std::vector<Violation> viol;
    uint64_t event_hash = 0;   // folds the event sequence and all result bits
    uint64_t shape_hash = 0;   // coverage measure (history shape / interleaving / fault position class)
    std::vector<uint64_t> shapes;  // modes that cover many distinct cases per run (C14: one per fault position)
    long evaluations = 1;      // executions performed by this run
    std::vector<int> executed_schedule;  // C20: the scheduling decisions that were taken (explicit schedule of the replay)
    std::vector<long> executed_gaps;     // C20: the edge-pre-emption gaps that were used, in draw order
    bool nontrivial = false;
    RunStats stats;
    std::string engine_error;  // non-empty: machinery problem (exit 2), never a violation
    bool has_class(const std::string& cls) const
    {
        for (auto& v : viol) if (v.cls() == cls) return true;
        return false;
    }
};

struct RunOpts
{
    bool observe_krylov = false;  // attach the C07 observer regardless of the property
    bool verbose = false;
};

RunOutput run_hist(const Plan& plan, const RunOpts& o);
RunOutput run_svd(const Plan& plan, const RunOpts& o);
RunOutput run_fault(const Plan& plan, const RunOpts& o);
RunOutput run_sched(const Plan& plan, const RunOpts& o);
RunOutput run_krylov(const Plan& plan, const RunOpts& o);
RunOutput run_plan(const Plan& plan, const RunOpts& o);

}  // namespace sim
