// Plan generation: every choice comes from one of four streams derived from the run seed.
#pragma once
#include "../core/plan.h"

namespace sim {

struct GenOpts
{
    bool thorough = false;
    int force_family = -1;   // >= 0: only this family
    bool no_faults = false;
    bool no_edge_preemption = false;  // C20: yield points at operator applications / checkpoints / API boundaries only
    long index = -1;         // run index inside the batch (family rotation of enumerations)
    bool single_shot = false;  // calibration: script = one init, one compute
};

// supported rule sets per family
std::vector<int> selection_rules(int family);
std::vector<int> sorting_rules(int family);
bool family_symmetric_like(int family);  // Lanczos based
int min_ncv(int family, int nev);

// world for a property (family mix, sizes, classes, scales, shifts)
WorldSpec gen_world(const std::string& prop, uint64_t run_seed, const GenOpts& o);
// history for a property
std::vector<Op> gen_script(const std::string& prop, const WorldSpec& w, uint64_t run_seed, const GenOpts& o);
// complete single-task history plan (modes hist / svd)
Plan gen_hist_plan(const std::string& prop, uint64_t run_seed, const GenOpts& o);

Plan gen_fault_plan(uint64_t run_seed, const GenOpts& o);
Plan gen_sched_plan(uint64_t run_seed, const GenOpts& o);
Plan gen_krylov_plan(uint64_t run_seed, const GenOpts& o);
Plan gen_plan_for(const std::string& prop, uint64_t run_seed, const GenOpts& o);
Op gen_compute(Rng& r, const WorldSpec& w, const std::string& prop, bool allow_bad);
Op gen_init(Rng& r, const WorldSpec& w, bool allow_zero);
double tol_floor(int scalar);

}  // namespace sim
