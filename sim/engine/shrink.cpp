// Greedy minimisation of a failing plan: a step is kept only if the same violation class persists.
#include "shrink.h"
#include <algorithm>
#include "gen.h"

namespace sim {

static bool fails(const Plan& p, const std::string& cls, const RunOpts& o, int& budget)
{
    if (budget <= 0) return false;
    budget--;
    RunOutput r = run_plan(p, o);
    return r.engine_error.empty() && r.has_class(cls);
}

static bool world_legal(const WorldSpec& w)
{
    if (w.family == F_SVD) return w.nev >= 1 && w.ncv > w.nev && w.ncv <= std::min(w.m_rows, w.n);
    if (w.nev < 1 || w.nev > w.n - 1) return false;
    if (w.ncv < min_ncv(w.family, w.nev) || w.ncv > w.n) return false;
    if (family_is_general(w.family) && w.nev > w.n - 2) return false;
    return w.n >= 3;
}

Plan shrink_plan(const Plan& start, const std::string& cls, const RunOpts& o, int budget, int* used)
{
    Plan best = start;
    const int budget0 = budget;
    bool changed = true;
    size_t keep_tail = (best.prop == "C06" && best.mode == "hist") ? 2 : 0;
    if (best.mode == "fault") keep_tail = 1000;
    const size_t keep_head = (best.mode == "krylov") ? 1 : 0;  // the first op of a direct script is its init  // the script of an enumeration is the observed pair itself
    while (changed && budget > 0)
    {
        changed = false;
        for (size_t t = 0; t < best.tasks.size(); t++)
        {
            // 1. drop ops (prefix history first)
            for (size_t i = keep_head; i + keep_tail < best.tasks[t].script.size();)
            {
                Plan c = best;
                c.tasks[t].script.erase(c.tasks[t].script.begin() + (long) i);
                if (fails(c, cls, o, budget)) { best = c; changed = true; }
                else i++;
            }
            // 2. drop faults, then move them towards index 1
            for (size_t i = 0; i < best.tasks[t].script.size(); i++)
            {
                for (size_t f = 0; f < best.tasks[t].script[i].faults.size();)
                {
                    Plan c = best;
                    c.tasks[t].script[i].faults.erase(c.tasks[t].script[i].faults.begin() + (long) f);
                    if (fails(c, cls, o, budget)) { best = c; changed = true; }
                    else f++;
                }
                for (size_t f = 0; f < best.tasks[t].script[i].faults.size(); f++)
                {
                    for (long cand : {1L, best.tasks[t].script[i].faults[f].at / 2, best.tasks[t].script[i].faults[f].at - 1})
                    {
                        if (cand < 1 || cand >= best.tasks[t].script[i].faults[f].at) continue;
                        Plan c = best;
                        c.tasks[t].script[i].faults[f].at = cand;
                        if (fails(c, cls, o, budget)) { best = c; changed = true; break; }
                    }
                    if (best.tasks[t].script[i].faults[f].type != 0)
                    {
                        Plan c = best;
                        c.tasks[t].script[i].faults[f].type = 0;
                        if (fails(c, cls, o, budget)) { best = c; changed = true; }
                    }
                }
            }
            // 3. simpler arguments
            for (size_t i = 0; i < best.tasks[t].script.size(); i++)
            {
                Op& cur = best.tasks[t].script[i];
                if (cur.kind == OP_INITV)
                {
                    Plan c = best;
                    c.tasks[t].script[i].kind = OP_INIT0;
                    if (fails(c, cls, o, budget)) { best = c; changed = true; continue; }
                    if (cur.vclass != V_GENERIC)
                    {
                        c = best;
                        c.tasks[t].script[i].vclass = V_GENERIC;
                        if (fails(c, cls, o, budget)) { best = c; changed = true; }
                    }
                }
                if (cur.kind == OP_COMPUTE || cur.kind == OP_SVDCOMPUTE)
                {
                    for (long cand : {0L, 1L, 2L, 5L, 20L})
                    {
                        if (cand >= best.tasks[t].script[i].maxit) break;
                        Plan c = best;
                        c.tasks[t].script[i].maxit = cand;
                        if (fails(c, cls, o, budget)) { best = c; changed = true; break; }
                    }
                    if (best.tasks[t].script[i].tol != 1e-10)
                    {
                        Plan c = best;
                        c.tasks[t].script[i].tol = 1e-10;
                        if (best.tasks[t].w.scalar != S_FLOAT && fails(c, cls, o, budget)) { best = c; changed = true; }
                    }
                    const int sel0 = family_is_general(best.tasks[t].w.family) ? R_LM : R_LA;
                    if (cur.kind == OP_COMPUTE && best.tasks[t].script[i].sel != sel0)
                    {
                        Plan c = best;
                        c.tasks[t].script[i].sel = sel0;
                        if (fails(c, cls, o, budget)) { best = c; changed = true; }
                    }
                }
            }
            // 4. simpler world (regenerates the matrices: kept only if the class persists)
            {
                WorldSpec& w = best.tasks[t].w;
                auto try_world = [&](WorldSpec cand) {
                    if (!world_legal(cand)) return false;
                    Plan c = best;
                    c.tasks[t].w = cand;
                    if (fails(c, cls, o, budget)) { best = c; changed = true; return true; }
                    return false;
                };
                if (w.scale != 1.0) { WorldSpec c = w; c.scale = 1.0; try_world(c); }
                if (w.variant != 0 && w.family != F_GREGINV) { WorldSpec c = w; c.variant = 0; try_world(c); }
                if (w.scalar != S_DOUBLE && world_supported(w.family, S_DOUBLE)) { WorldSpec c = w; c.scalar = S_DOUBLE; try_world(c); }
                for (int step : {w.n / 2, 4, 1})
                {
                    if (step < 1) continue;
                    WorldSpec c = best.tasks[t].w;
                    c.n -= step;
                    if (c.family == F_SVD) c.m_rows = std::max(c.m_rows - step, 3);
                    c.ncv = std::min(c.ncv, c.family == F_SVD ? std::min(c.n, c.m_rows) : c.n);
                    if (c.mclass == M_BLOCKDIAG) c.nblock = std::min(c.nblock, c.n - 1);
                    if (c.mclass == M_LOWRANK) c.rank = std::min(c.rank, c.n);
                    try_world(c);
                }
                {
                    WorldSpec c = best.tasks[t].w;
                    c.ncv = std::max(min_ncv(c.family, c.nev), c.ncv / 2);
                    if (c.ncv < best.tasks[t].w.ncv) try_world(c);
                }
                if (best.tasks[t].w.nev > 1)
                {
                    WorldSpec c = best.tasks[t].w;
                    c.nev--;
                    try_world(c);
                }
            }
        }
    }
    if (used) *used = budget0 - budget;
    return best;
}

}  // namespace sim
