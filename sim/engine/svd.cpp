// C16: PartialSVDSolver histories. After every compute() the results must describe that compute():
// bitwise equal to a fresh solver given the same arguments, matrix_U(k)/matrix_V(k) with min(k, nconv)
// columns; on the sampled inputs also the numerical clauses.
#include <cmath>
#include "exec.h"
#include "run.h"
#include <Eigen/Eigenvalues>

namespace sim {

typedef long double ld;

namespace {
struct SvdSnap
{
    long ret = 0;
    Snapshot S, U, V;
    bool same(const SvdSnap& o) const
    {
        return ret == o.ret && S.nvals == o.S.nvals && S.val_bytes == o.S.val_bytes && U.vrows == o.U.vrows && U.vcols == o.U.vcols &&
            U.vec_bytes == o.U.vec_bytes && V.vrows == o.V.vrows && V.vcols == o.V.vcols && V.vec_bytes == o.V.vec_bytes;
    }
};

static ApiResult snap(ISvd& s, SvdSnap& out, long k)
{
    return guarded([&]() -> long {
        s.singular_values(out.S);
        s.matrix_U(out.U, k);
        s.matrix_V(out.V, k);
        return 0;
    });
}
}  // namespace

RunOutput run_svd(const Plan& plan, const RunOpts&)
{
    RunOutput out;
    const TaskSpec& task = plan.tasks.at(0);
    const WorldSpec& spec = task.w;
    const Calib& C = Calib::get(F_SVD);
    out.stats.add("runs");
    out.stats.add(std::string("scalar.") + scalar_name(spec.scalar));
    out.stats.add(spec.m_rows > spec.n ? "shape.tall" : (spec.m_rows < spec.n ? "shape.wide" : "shape.square"));
    out.stats.add((spec.variant & 1) ? "storage.sparse" : "storage.dense");
    out.stats.add((spec.variant & 8) ? "storage.rowmajor" : "storage.colmajor");
    std::unique_ptr<IWorld> world;
    std::unique_ptr<ISvd> alpha;
    try
    {
        world = make_world(spec);
        alpha = world->make_svd();
    }
    catch (const std::exception&)
    {
        out.stats.add("construct_threw");
        return out;
    }
    TaskCtx ctx;
    current_ctx() = &ctx;
    // reference singular values (long double): sqrt of the eigenvalues of the smaller Gram matrix
    const long m = spec.m_rows, n = spec.n, p = std::min(m, n);
    LinOp A;
    A.from(world->A);
    RMatL G = (m >= n) ? RMatL(A.re.transpose() * A.re) : RMatL(A.re * A.re.transpose());
    Eigen::SelfAdjointEigenSolver<RMatL> es(G, Eigen::EigenvaluesOnly);
    RVecL sv(p);
    for (long i = 0; i < p; i++) sv[i] = std::sqrt(std::max<ld>(0, es.eigenvalues()[p - 1 - i]));
    const ld normA = sv[0];
    const ld eps = world->eps;
    Hasher shape, log;
    bool computed = false;
    long nconv = 0;
    auto viol = [&](const char* clause, int op_index, ld ratio, const std::string& d) {
        Violation v;
        v.prop = "C16";
        v.clause = clause;
        v.op_index = op_index;
        v.ratio = ratio;
        v.detail = d;
        out.viol.push_back(v);
    };
    char buf[400];
    for (size_t i = 0; i < task.script.size(); i++)
    {
        const Op& op = task.script[i];
        const long san0 = sanitizer_reports();
        if (op.kind == OP_SVDCOMPUTE)
        {
            ApiResult r = guarded([&]() -> long { return alpha->compute(op.maxit, (ld) op.tol); });
            shape.u64(((uint64_t) op.kind << 8) | (r.threw ? 9u : 0u));
            out.stats.add(std::string("outcome.") + (r.threw ? exc_name(r.exc) : "returned"));
            if (r.threw)
            {
                computed = false;
                continue;
            }
            computed = true;
            nconv = r.ret;
            shape.u64((uint64_t) (nconv == spec.nev ? 1 : (nconv == 0 ? 2 : 3)));
            const long kall = spec.nev + 2;
            SvdSnap a;
            a.ret = r.ret;
            // the harness' own full read must not be the FIRST accessor call after every compute() (it would prime any lazily
            // filled cache with all columns): in half of the computes a narrow read of one factor comes first
            const uint64_t pre = mix64(plan.run_seed, 0x5EED + (uint64_t) i);
            if (pre & 1)
            {
                const long k0 = (long) ((pre >> 8) % (uint64_t) (spec.nev + 1));
                Snapshot narrow_read;
                ApiResult rn = guarded([&]() -> long {
                    if (pre & 2) alpha->matrix_U(narrow_read, k0);
                    else alpha->matrix_V(narrow_read, k0);
                    return 0;
                });
                out.stats.add("op.narrow_read_first");
                if (!rn.threw && narrow_read.vcols != std::min(k0, nconv))
                {
                    std::snprintf(buf, sizeof buf, "first accessor call after compute(): matrix_%s(%ld) returned %ld columns with nconv=%ld", (pre & 2) ? "U" : "V", k0, narrow_read.vcols, nconv);
                    viol("column-count", (int) i, 1, buf);
                }
            }
            ApiResult ra = snap(*alpha, a, kall);
            if (sanitizer_reports() != san0 || ra.threw)
            {
                out.stats.add(ra.threw ? "oos.accessor_threw" : "oos.sanitizer_report");
                continue;
            }
            log.u64((uint64_t) a.ret);
            log.bytes(a.S.val_bytes.data(), a.S.val_bytes.size());
            log.bytes(a.U.vec_bytes.data(), a.U.vec_bytes.size());
            log.bytes(a.V.vec_bytes.data(), a.V.vec_bytes.size());
            out.nontrivial = true;
            if (i > 0) out.stats.add("compute.repeated");
            // ---- shape clauses ----
            if (nconv < 0 || nconv > spec.nev || a.S.nvals != nconv || a.U.vcols != std::min(kall, nconv) || a.V.vcols != std::min(kall, nconv) ||
                (nconv > 0 && (a.U.vrows != m || a.V.vrows != n)))
            {
                std::snprintf(buf, sizeof buf, "compute() returned %ld (ncomp %d): singular_values().size()=%ld, matrix_U(%ld) is %ldx%ld, matrix_V(%ld) is %ldx%ld", nconv, spec.nev,
                              a.S.nvals, kall, a.U.vrows, a.U.vcols, kall, a.V.vrows, a.V.vcols);
                viol("shape", (int) i, 1, buf);
                continue;
            }
            // ---- the results describe THIS compute(): a fresh solver with the same arguments agrees bit for bit ----
            {
                std::unique_ptr<ISvd> beta = world->make_svd();
                SvdSnap b;
                ApiResult rb = guarded([&]() -> long { return beta->compute(op.maxit, (ld) op.tol); });
                b.ret = rb.ret;
                ApiResult rsb = snap(*beta, b, kall);
                if (rb.threw || rsb.threw || !a.same(b))
                {
                    std::snprintf(buf, sizeof buf, "after compute(maxit=%ld, tol=%.3g) on a solver with %zu earlier ops: nconv %ld/%ld, singular values %s, U %s, V %s versus a fresh solver", op.maxit, op.tol, i,
                                  a.ret, b.ret, a.S.val_bytes == b.S.val_bytes ? "equal" : "DIFFER", a.U.vec_bytes == b.U.vec_bytes ? "equal" : "DIFFER", a.V.vec_bytes == b.V.vec_bytes ? "equal" : "DIFFER");
                    viol("most-recent-compute", (int) i, 1, buf);
                }
            }
            // ---- numerical clauses on the sampled inputs ----
            if (nconv > 0)
            {
                bool finite = true, ordered = true;
                for (long j = 0; j < nconv; j++)
                {
                    const ld s = a.S.vals[j].real();
                    if (!(s >= 0) || !std::isfinite((double) s)) finite = false;
                    if (j > 0 && !(s <= a.S.vals[j - 1].real() * (1 + 16 * eps))) ordered = false;
                }
                if (!finite) viol("finite-nonnegative", (int) i, 1, "a returned singular value is negative, NaN or infinite");
                if (finite && !ordered) viol("ordering", (int) i, 1, "singular values are not in non-increasing order");
                if (finite)
                {
                    const ld smin = a.S.vals[nconv - 1].real();
                    const bool in_domain = smin >= 1e-4L * normA;  // the factor identities are stated for sigma_i >= 1e-4 ||A||
                    const ld amp = in_domain ? (normA / smin) * (normA / smin) : 0;
                    // constants: 10 x (factors) / 2 x..6 x (values) the largest deviation seen on 3e6 pinned-tree histories
                    const ld allow = ((ld) op.tol * 30 + 300 * (ld) std::max(m, n) * eps) * amp;
                    const ld allow_values = ((ld) op.tol * 10000 + 10 * C.C_res * (ld) std::max(m, n) * eps) * amp;
                    if (in_domain)
                    {
                        // leading singular values (only meaningful when all requested ones converged)
                        if (nconv == spec.nev)
                        {
                            ld worst = 0;
                            for (long j = 0; j < nconv; j++) worst = std::max(worst, std::abs(a.S.vals[j].real() - sv[j]) / normA);
                            out.stats.max("ratio.svd_values", (double) (worst / allow_values));
                            if (!(worst <= allow_values))
                            {
                                std::snprintf(buf, sizeof buf, "largest deviation from the leading singular values of A: %.3Lg ||A|| > %.3Lg", worst, allow_values);
                                viol("leading-values", (int) i, worst / allow_values, buf);
                            }
                        }
                        // factor identities
                        RMatL U = a.U.vecs.real(), V = a.V.vecs.real();
                        RVecL S(nconv);
                        for (long j = 0; j < nconv; j++) S[j] = a.S.vals[j].real();
                        const ld eu = (U.transpose() * U - RMatL::Identity(nconv, nconv)).cwiseAbs().maxCoeff();
                        const ld evv = (V.transpose() * V - RMatL::Identity(nconv, nconv)).cwiseAbs().maxCoeff();
                        const ld e1 = (A.re * V - U * S.asDiagonal()).colwise().norm().maxCoeff() / normA;
                        const ld e2 = (A.re.transpose() * U - V * S.asDiagonal()).colwise().norm().maxCoeff() / normA;
                        const ld worst = std::max(std::max(eu, evv), std::max(e1, e2));
                        out.stats.max("ratio.svd_factors", (double) (worst / allow));
                        if (!(worst <= allow))
                        {
                            std::snprintf(buf, sizeof buf, "|U'U-I|=%.3Lg |V'V-I|=%.3Lg ||AV-US||/||A||=%.3Lg ||A'U-VS||/||A||=%.3Lg > %.3Lg (tol %.3g)", eu, evv, e1, e2, allow, op.tol);
                            viol("factor-identities", (int) i, worst / allow, buf);
                        }
                    }
                    else
                        out.stats.add("numeric.skipped_small_sigma");
                }
            }
        }
        else if (op.kind == OP_READ && computed)
        {
            // accessor reads between computes: column counts, and (by the refinement above) no effect on later results
            SvdSnap rd;
            ApiResult rr = guarded([&]() -> long {
                if (op.readmask & 1) alpha->singular_values(rd.S);
                if (op.readmask & 2) alpha->matrix_U(rd.U, op.nvec);
                if (op.readmask & 4) alpha->matrix_V(rd.V, op.nvec);
                return 0;
            });
            shape.u64(((uint64_t) op.kind << 8) | (uint64_t) (op.readmask & 7));
            if (rr.threw) { out.stats.add("oos.accessor_threw"); continue; }
            const long want = std::min(op.nvec, nconv);
            if (((op.readmask & 2) && rd.U.vcols != want) || ((op.readmask & 4) && rd.V.vcols != want))
            {
                std::snprintf(buf, sizeof buf, "matrix_U/V(%ld) returned %ld/%ld columns with nconv=%ld", op.nvec, rd.U.vcols, rd.V.vcols, nconv);
                viol("column-count", (int) i, 1, buf);
            }
            out.stats.add("op.read");
        }
    }
    current_ctx() = nullptr;
    out.event_hash = log.h;
    out.shape_hash = shape.h ^ mix64((uint64_t) spec.variant, (uint64_t) (spec.m_rows > spec.n) + 2 * (uint64_t) (spec.m_rows < spec.n));
    return out;
}

}  // namespace sim
