// C20: 2..16 simulated caller threads, each driving its own solver object; operators private per task or
// one shared read-only product wrapper. Every interleaving decision is taken by the seeded scheduler
// (core/sched.cpp, invisible to TSan). Oracle: zero ThreadSanitizer reports, and every task's outcome
// bit-identical to the same script executed alone beforehand.
#include <thread>
#include "../core/sched.h"
#include "exec.h"
#include "run.h"

namespace sim {

namespace {

struct TaskResult
{
    std::vector<uint64_t> op_hash;
    std::vector<int> op_exc;
    bool construct_threw = false;
    long events = 0;
};

static uint64_t record_hash(const OpRecord& r)
{
    Hasher h;
    h.u64((uint64_t) r.res.threw);
    h.u64((uint64_t) r.res.exc);
    h.u64((uint64_t) r.res.ret);
    if (r.has_snap) h.u64(r.snap.hash());
    return h.h;
}

static void yield_trampoline(TaskCtx* c, int kind) { sched_yield((Scheduler*) c->sched, c->task_id, kind); }

static void run_task(const TaskSpec& t, IWorld* share_owner, Scheduler* sched, int id, TaskResult& res)
{
    std::unique_ptr<Session> S;
    try
    {
        if (share_owner) S.reset(new Session(share_owner->share_operator(t.w)));
        else S.reset(new Session(t.w));
        S->ctx.task_id = id;
        if (sched)
        {
            S->ctx.sched = sched;
            S->ctx.yield_fn = &yield_trampoline;
        }
        // PartialSVDSolver tasks run through the generic solver interface (Session::construct_solver would build the C16 one)
        if (t.w.family == F_SVD) S->solver = S->world->make_solver();
        else S->construct_solver();
    }
    catch (...)
    {
        res.construct_threw = true;
        return;
    }
    for (size_t i = 0; i < t.script.size(); i++)
    {
        OpRecord r = S->exec(t.script[i], (int) i);
        res.op_hash.push_back(record_hash(r));
        res.op_exc.push_back(r.res.threw ? r.res.exc : 0);
    }
    res.events = S->ctx.nevents;
}

}  // namespace

RunOutput run_sched(const Plan& plan, const RunOpts&)
{
    RunOutput out;
    const int T = (int) plan.tasks.size();
    out.stats.add("runs");
    out.stats.add("tasks", T);
    out.stats.add(std::string("tasks.") + std::to_string(T));
    out.stats.add(std::string("policy.") + std::to_string(plan.explicit_schedule ? 9 : plan.policy));
    // owners of shared product wrappers: built once by the controller, alive for both phases
    std::vector<std::unique_ptr<IWorld>> owners((size_t) T);
    bool any_share = false;
    for (int t = 0; t < T; t++)
    {
        const int o = plan.tasks[(size_t) t].share;
        if (o >= 0 && o < T && !owners[(size_t) o])
        {
            owners[(size_t) o] = make_world(plan.tasks[(size_t) o].w);
            any_share = true;
        }
    }
    out.stats.add(any_share ? "operators.shared_wrapper" : "operators.private");
    auto owner_of = [&](int t) -> IWorld* {
        const int o = plan.tasks[(size_t) t].share;
        if (o >= 0 && o < T) return owners[(size_t) o].get();
        if (owners[(size_t) t]) return owners[(size_t) t].get();  // the owner itself also runs on a view
        return nullptr;
    };
    // ---- phase 1: concurrently under the seeded scheduler. It runs FIRST: a lazily initialised static or a
    // once-only cache that the sequential reference would prime on the controller thread must meet the tasks cold ----
    std::vector<TaskResult> ref((size_t) T), con((size_t) T);
    const long san0 = sanitizer_reports();
    Scheduler* sched = sched_create(T, plan.policy, plan.policy_p, plan.sched_seed, plan.explicit_schedule ? plan.schedule.data() : nullptr,
                                    (long) plan.schedule.size());
    sched_set_edge(sched, plan.edge_gap, plan.explicit_schedule ? plan.gaps.data() : nullptr, (long) plan.gaps.size());
    {
        std::vector<std::thread> threads;
        for (int t = 0; t < T; t++)
        {
            threads.emplace_back([&, t]() {
                sched_task_begin(sched, t);
                sched_edge_attach(sched, t);
                run_task(plan.tasks[(size_t) t], owner_of(t), sched, t, con[(size_t) t]);
                sched_edge_detach();
                sched_task_end(sched, t);
            });
        }
        sched_start(sched);
        sched_wait_all(sched);
        for (auto& th : threads) th.join();
    }
    const long reports = sanitizer_reports() - san0;
    // ---- phase 2: every script alone, one after another (reference) ----
    for (int t = 0; t < T; t++) run_task(plan.tasks[(size_t) t], owner_of(t), nullptr, t, ref[(size_t) t]);
    // ---- oracle ----
    if (reports > 0)
    {
        Violation v;
        v.prop = "C20";
        v.clause = "data-race";
        v.detail = std::to_string(reports) + " ThreadSanitizer report(s) while " + std::to_string(T) + " tasks ran under the scheduler (see stderr for the racing stacks)";
        v.ratio = (long double) reports;
        out.viol.push_back(v);
    }
    for (int t = 0; t < T; t++)
    {
        const TaskResult &a = ref[(size_t) t], &b = con[(size_t) t];
        bool same = a.construct_threw == b.construct_threw && a.op_hash.size() == b.op_hash.size();
        size_t first = 0;
        if (same)
            for (size_t i = 0; i < a.op_hash.size(); i++)
                if (a.op_hash[i] != b.op_hash[i]) { same = false; first = i; break; }
        if (!same)
        {
            Violation v;
            v.prop = "C20";
            v.clause = "differs-from-sequential";
            v.op_index = (int) first;
            v.detail = "task " + std::to_string(t) + " (" + family_name(plan.tasks[(size_t) t].w.family) + "): outcome of op " + std::to_string(first) +
                " under concurrency differs bitwise from the same script run alone";
            out.viol.push_back(v);
        }
        out.stats.add(std::string("family.") + family_name(plan.tasks[(size_t) t].w.family));
        for (int e : b.op_exc)
            if (e == X_SIMFAULT || e == X_SIMRUNTIME || e == X_INT) out.stats.add("fault.fired_in_task");
    }
    out.stats.add("yields", sched_yields(sched));
    out.stats.add("switches", sched_switches(sched));
    out.stats.add("edge.yields", sched_edge_yields(sched));
    out.stats.add("edge.edges_executed", sched_edges_seen(sched));
    if (plan.edge_gap > 0 || !plan.gaps.empty()) out.stats.add("edge.runs_with_edge_preemption");
    long pm[8][8];
    sched_pair_matrix(sched, pm);
    static const char* kn[] = {"0", "api_enter", "api_leave", "apply_begin", "apply_end", "checkpoint", "edge", "7"};
    for (int a = 1; a <= 6; a++)
        for (int b = 1; b <= 6; b++)
            if (pm[a][b]) out.stats.add(std::string("switch_pair.") + kn[a] + ">" + kn[b], pm[a][b]);
    Hasher h;
    for (int t = 0; t < T; t++)
        for (uint64_t x : con[(size_t) t].op_hash) h.u64(x);
    h.u64(sched_interleaving_hash(sched));
    out.event_hash = h.h;
    out.shape_hash = sched_interleaving_hash(sched);
    out.nontrivial = sched_switches(sched) > 0;
    out.executed_schedule.assign(sched_choices(sched), sched_choices(sched) + sched_nchoices(sched));
    out.executed_gaps.assign(sched_gaps(sched), sched_gaps(sched) + sched_ngaps(sched));
    if (sched_overflow(sched)) out.engine_error = "scheduler decision log overflowed its fixed capacity";
    sched_destroy(sched);
    return out;
}

}  // namespace sim
