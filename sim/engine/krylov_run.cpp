// C07, direct driver: scripts of init / extend / restart(k, shifts) over a bare Arnoldi or Lanczos object.
// The oracle is the checkpoint observer (same as in solver runs), with the advertised dimension known.
#include "exec.h"
#include "gen.h"
#include "run.h"

namespace sim {

RunOutput run_krylov(const Plan& plan, const RunOpts&)
{
    RunOutput out;
    const TaskSpec& task = plan.tasks.at(0);
    const WorldSpec& spec = task.w;
    out.stats.add("runs.direct");
    out.stats.add(std::string("direct.family.") + family_name(spec.family));
    std::unique_ptr<IWorld> world;
    std::unique_ptr<IKrylov> K;
    TaskCtx ctx;
    try
    {
        world = make_world(spec);
        ctx.seam[0] = &world->ctlA;
        ctx.seam[1] = &world->ctlB;
        K = world->make_krylov();
    }
    catch (const std::exception&)
    {
        out.stats.add("construct_threw");
        return out;
    }
    if (!K)
    {
        out.engine_error = "family has no direct Krylov driver";
        return out;
    }
    WorldRef ref;
    build_ref_op(*world, ref);
    const int cgroup = (spec.mclass == M_LOWRANK) ? 1 : 0;
    const Calib& calib = Calib::get(spec.family, cgroup);
    KrylovObserver obs;
    obs.ref = &ref;
    obs.lanczos = K->lanczos();
    obs.identity_ip = (spec.family != F_GREGINV);
    obs.calib = &calib;
    obs.general = family_is_general(spec.family);
    obs.in_solver = false;
    obs.skip_after_expand = true;
    obs.max_restarts = (spec.scalar == S_LDOUBLE) ? 8 : 15;
    obs.out = &out.viol;
    ctx.observer = &obs;
    current_ctx() = &ctx;
    Hasher shape;
    shape.u64((uint64_t) spec.family);
    const long m = K->full_dim();
    bool inited = false, dead = false;
    for (size_t i = 0; i < task.script.size() && !dead; i++)
    {
        const Op& op = task.script[i];
        obs.op_index = (int) i;
        for (int k = 0; k < CK_COUNT; k++) obs.expect_kind[k] = -1;
        ApiResult r;
        ctx.begin_api(op.kind);
        if (op.kind == OP_INITV || op.kind == OP_INIT0)
        {
            VecL v = gen_start_vector(spec, world->A, op.kind == OP_INIT0 ? V_GENERIC : op.vclass, op.kind == OP_INIT0 ? 0 : op.vseed);
            obs.expect_kind[CK_INIT] = 1;
            r = guarded([&]() -> long { K->init(v); return 0; });
            inited = !r.threw;
        }
        else if (op.kind == OP_KEXTEND && inited)
        {
            long to = std::min<long>(std::max<long>(op.maxit, K->dim() + 1), m);
            if (to <= K->dim()) { ctx.end_api(op.kind, 0, 0); continue; }
            obs.expect_kind[CK_FACTORIZE] = to;
            r = guarded([&]() -> long { K->extend(to); return 0; });
        }
        else if (op.kind == OP_KRESTART && inited)
        {
            if (K->dim() != m)
            {
                obs.expect_kind[CK_FACTORIZE] = m;
                r = guarded([&]() -> long { K->extend(m); return 0; });
            }
            if (!r.threw)
            {
                const long k = std::min<long>(std::max<long>(op.maxit, 1), m - 1);
                if (K->lanczos()) obs.expect_kind[CK_COMPRESS] = k;
                obs.expect_kind[CK_FACTORIZE] = m;
                r = guarded([&]() -> long { K->restart(k, op.sel, op.vseed); return 0; });
                out.stats.add(std::string("direct.restart.mode") + std::to_string(op.sel));
            }
        }
        ctx.end_api(op.kind, r.exc, 0);
        shape.u64(((uint64_t) op.kind << 8) | (uint64_t) (r.threw ? 9 : 0));
        if (r.threw)
        {
            out.stats.add(std::string("direct.threw.") + exc_name(r.exc));
            dead = true;  // the object's state after a throw is unspecified
        }
    }
    current_ctx() = nullptr;
    for (int k = 0; k < CK_COUNT; k++)
    {
        out.stats.add(std::string("krylov.checked.") + checkpoint_name(k), obs.stats.checked[k]);
        shape.u64((uint64_t) obs.stats.checked[k]);
    }
    out.stats.add("krylov.breakdowns", obs.stats.breakdowns);
    out.stats.add("krylov.skipped_known_regime", obs.skipped_known_regime);
    const std::string fam = std::string(cgroup ? ".lowrank." : ".") + family_name(spec.family);
    out.stats.max("ratio.krylov_factorization" + fam, (double) obs.stats.max_fac);
    out.stats.max("ratio.krylov_orthonormality" + fam, (double) obs.stats.max_orth);
    out.stats.max("ratio.krylov_vf" + fam, (double) obs.stats.max_vf);
    out.stats.add("events", ctx.nevents);
    out.stats.add("applications.A", ctx.n_apply[0]);
    out.stats.add("applications.B", ctx.n_apply[1]);
    long checked = 0;
    for (int k = 0; k < CK_COUNT; k++) checked += obs.stats.checked[k];
    out.nontrivial = checked > 0;
    out.event_hash = ctx.log.h;
    out.shape_hash = shape.h;
    return out;
}

}  // namespace sim
