// C14: fault enumeration. For one world and one observed pair init(v); compute(a):
//   baseline on a never-faulted solver, then for EVERY application index k of the A- and the B-operator
//   inside init(), compute() and the eigenvector accessor: arm, run, expect the very exception to
//   propagate, call every accessor, disarm, re-run init(v); compute(a) and demand a bit-identical result
//   obtained with exactly the baseline's amount of work. Two passes: one solver object kept across all k
//   (damage accumulates), and a fresh world per k (first divergence is attributable). Sampled fault pairs.
#include "exec.h"
#include "gen.h"
#include "run.h"

extern "C" size_t __sanitizer_get_current_allocated_bytes() __attribute__((weak));

namespace sim {

namespace {

struct Baseline
{
    OpRecord init, comp;
    long events = 0;
    std::vector<unsigned char> probe;
    long N[2][3] = {{0, 0, 0}, {0, 0, 0}};  // [target][call: 0 init, 1 compute, 2 read]
};

struct Position
{
    int target, call;
    long k;
    int type;
    // optional second fault: in the recovery run (same target/call semantics), or armed together on the other operator
    bool pair = false, together = false;
    int target2 = 0, call2 = 0;
    long k2 = 0;
    long index = -1;  // position number within the world's enumeration (replay of accumulated damage: prefix_upto)
};

static const char* call_name(int c) { return c == 0 ? "init" : (c == 1 ? "compute" : "eigenvectors"); }

static int expected_exc(int type)
{
    if (type == FT_POISON) return X_RUNTIME;  // thrown by the library's own SparseRegularInverse::solve()
    return type == FT_RUNTIME ? X_SIMRUNTIME : (type == FT_INT ? X_INT : X_SIMFAULT);
}

struct Enumerator
{
    friend struct Dummy;
    const Plan& plan;
    const WorldSpec& spec;
    Op op_init, op_comp;
    RunOutput& out;
    Baseline base;
    Enumerator(const Plan& p, RunOutput& o) : plan(p), spec(p.tasks.at(0).w), out(o)
    {
        op_init = p.tasks[0].script.at(0);
        op_comp = p.tasks[0].script.at(1);
        op_init.faults.clear();
        op_comp.faults.clear();
    }

    void violation(const char* clause, const Position& pos, int pass, const std::string& detail)
    {
        Violation v;
        v.prop = "C14";
        v.clause = clause;
        v.op_index = pos.call;
        v.ratio = 1;
        char buf[200];
        std::snprintf(buf, sizeof buf, "fault in %s-operator at application %ld of %s() [%s pass%s]: ", pos.target ? "B" : "A", pos.k, call_name(pos.call),
                      pass == 0 ? "persistent-solver" : "fresh-solver", pos.pair ? (pos.together ? ", second fault armed together" : ", second fault in the recovery run") : "");
        v.detail = buf + detail;
        Json pj = Json::object();
        pj.set("target", pos.target).set("call", pos.call).set("k", pos.k).set("type", pos.type).set("pass", pass).set("pos_index", pos.index);
        if (pos.pair) pj.set("pair", true).set("together", pos.together).set("target2", pos.target2).set("call2", pos.call2).set("k2", pos.k2);
        v.params = pj;
        out.viol.push_back(v);
    }

    bool run_baseline()
    {
        Session R(spec);
        R.construct_solver();
        R.world->probe(base.probe);
        const long e0 = R.ctx.nevents;
        base.init = R.exec(op_init, 0);
        base.N[0][0] = R.world->ctlA.completed_in_api;
        base.N[1][0] = R.world->ctlB.completed_in_api;
        if (base.init.res.threw) return false;
        base.comp = R.exec(op_comp, 1);
        if (base.comp.res.threw || !base.comp.has_snap) return false;
        base.N[0][1] = base.comp.applyA;
        base.N[1][1] = base.comp.applyB;
        base.events = R.ctx.nevents - e0;
        {
            // applications made by a plain eigenvectors() read (the faulted accessor call of the enumeration is a plain read too)
            Snapshot plain;
            OpRecord rr;
            R.take_snapshot(plain, -1, nullptr, &rr);
            base.N[0][2] = rr.read_applyA;
            base.N[1][2] = rr.read_applyB;
        }
        if (base.init.san_reports || base.comp.san_reports) return false;
        return true;
    }

    // one faulted sequence followed by the recovery run; returns false if the fault did not fire
    bool run_position(Session& S, const Position& pos, int pass)
    {
        out.evaluations++;
        const long san0 = sanitizer_reports();
        Fault f;
        f.target = pos.target;
        f.at = pos.k;
        f.type = pos.type;
        Fault f2;
        f2.target = pos.target2;
        f2.at = pos.k2;
        f2.type = (pos.type + 1) % 3;
        bool fired = false;
        auto faulted_sequence = [&](const Fault& ff, int call, const Fault* extra) -> bool {
            // returns true if the armed fault fired (and checks that it propagated unchanged)
            const long native0 = S.world->ctlB.native_throws;
            Op i = op_init, c = op_comp;
            if (call == 0) i.faults.push_back(ff);
            if (call == 1) c.faults.push_back(ff);
            if (extra && call == 0) i.faults.push_back(*extra);
            if (extra && call == 1) c.faults.push_back(*extra);
            OpRecord ri = S.exec(i, 0);
            const OpRecord* thrower = nullptr;
            OpRecord rc, rr;
            bool did_fire = ri.fired[0] || ri.fired[1];
            if (ri.res.threw) thrower = &ri;
            else
            {
                rc = S.exec(c, 1);
                did_fire = did_fire || rc.fired[0] || rc.fired[1];
                if (rc.res.threw) thrower = &rc;
                else if (call == 2)
                {
                    Snapshot tmp;
                    rr.res = S.take_snapshot(tmp, -1, &ff, &rr);
                    did_fire = did_fire || rr.fired[ff.target];
                    if (rr.res.threw)
                    {
                        thrower = &rr;
                        S.tainted = true;
                    }
                }
            }
            if (!did_fire)
            {
                if (thrower)
                    violation("unexpected-exception", pos, pass, std::string("no fault fired but ") + exc_name(thrower->res.exc) + " was thrown: " + thrower->res.what);
                return false;
            }
            // which fault fired first decides the expected exception
            int etype = ff.type;
            if (extra)
            {
                const OpRecord& r = (call == 0) ? ri : rc;
                if (r.fired[extra->target] && !r.fired[ff.target]) etype = extra->type;
            }
            if (ff.type == FT_POISON)
            {
                // the A-operator returned NaN; the B-operator of this mode is the REAL SparseRegularInverse behind the seam.
                // The property speaks about an operator that throws: a verdict is given only if the real wrapper did throw
                if (S.world->ctlB.native_throws == native0)
                {
                    out.stats.add("fault.poison_without_native_throw");
                    return false;
                }
                out.stats.add("fault.fired.native_B_solve");
            }
            if (!thrower)
            {
                violation("swallowed", pos, pass, "the operator threw but init()/compute()/accessor returned normally");
                return true;
            }
            const ApiResult& a = thrower->res;
            if (a.exc != expected_exc(etype) || !a.exact_type)
                violation("exception-identity", pos, pass, std::string("expected the injected ") + exc_name(expected_exc(etype)) + " to propagate unchanged, got " + exc_name(a.exc) + (a.what.empty() ? "" : (" (" + a.what + ")")));
            // after the throw: every const accessor is callable (memory errors there are corruption; contents are unspecified)
            Snapshot after;
            S.take_snapshot(after, -1);
            Snapshot after2;
            S.take_snapshot(after2, 1);
            return true;
        };
        fired = faulted_sequence(f, pos.call, (pos.pair && pos.together) ? &f2 : nullptr);
        if (!fired)
        {
            out.stats.add("fault.not_fired");
            // the sequence ran to completion without a fault: nothing to recover from, but it must still equal the baseline
        }
        else
        {
            out.stats.add(std::string("fault.fired.") + (pos.target ? "B" : "A") + "." + call_name(pos.call));
        }
        if (pos.pair && !pos.together)
        {
            // second fault during the recovery run
            Fault g = f2;
            if (faulted_sequence(g, pos.call2, nullptr)) out.stats.add("fault.fired.second_in_recovery");
        }
        // ---- recovery: once faults stop, init(v); compute(a) must reproduce the baseline exactly ----
        const long e0 = S.ctx.nevents;
        OpRecord ri = S.exec(op_init, 0);
        OpRecord rc = S.exec(op_comp, 1);
        const long ev = S.ctx.nevents - e0;
        if (ri.res.threw || rc.res.threw || !rc.has_snap)
            violation("recovery-failed", pos, pass, std::string("recovery run threw ") + exc_name(ri.res.threw ? ri.res.exc : rc.res.exc) + ": " + (ri.res.threw ? ri.res.what : rc.res.what));
        else
        {
            if (!rc.snap.same_bits(base.comp.snap))
            {
                char buf[256];
                const Snapshot &x = rc.snap, &y = base.comp.snap;
                std::snprintf(buf, sizeof buf, "recovery run differs from the never-faulted baseline: ret %ld/%ld info %d/%d niter %ld/%ld nops %ld/%ld values %s vectors %s", x.ret, y.ret,
                              x.info, y.info, x.niter, y.niter, x.nops, y.nops, x.val_bytes == y.val_bytes ? "equal" : "DIFFER", x.vec_bytes == y.vec_bytes ? "equal" : "DIFFER");
                violation("recovery-differs", pos, pass, buf);
            }
            else if (ev != base.events)
                violation("recovery-work", pos, pass, "recovery run needed " + std::to_string(ev) + " events, the baseline " + std::to_string(base.events));
        }
        std::vector<unsigned char> p1;
        S.world->probe(p1);
        if (p1 != base.probe) violation("operator-changed", pos, pass, "operator probe after recovery differs from the probe of the never-faulted operator");
        if (sanitizer_reports() != san0) violation("sanitizer", pos, pass, "the sanitizer reported a memory error during the faulted or the recovery run");
        if (S.world->ctlA.buffer_errors || S.world->ctlB.buffer_errors) violation("seam-buffer", pos, pass, "the library handed the operator an invalid buffer");
        return fired;
    }
};

}  // namespace

RunOutput run_fault(const Plan& plan, const RunOpts&)
{
    RunOutput out;
    out.evaluations = 0;
    const WorldSpec& spec = plan.tasks.at(0).w;
    out.stats.add(std::string("family.") + family_name(spec.family));
    out.stats.add("worlds");
    Hasher hh;
    const bool have_alloc = (&__sanitizer_get_current_allocated_bytes != nullptr);
    out.viol.reserve(64);
    {
        Enumerator E(plan, out);
        bool ok = false;
        try
        {
            ok = E.run_baseline();
        }
        catch (const std::exception&) { ok = false; }
        catch (const EigenAssertion&) { ok = false; }
        if (!ok)
        {
            out.stats.add("worlds.baseline_unsuitable");
        }
        else
        {
            out.nontrivial = true;
            for (int t = 0; t < 2; t++)
                for (int c = 0; c < 3; c++) out.stats.add(std::string("baseline.applications.") + (t ? "B." : "A.") + call_name(c), E.base.N[t][c]);
            std::vector<Position> positions;
            const long cap = plan.params.geti("cap_per_site", 400);
            const int type0 = (int) (plan.run_seed % 3);
            bool exhaustive = true;
            if (plan.params.has("k"))
            {
                Position p;
                p.target = (int) plan.params.geti("target", 0);
                p.call = (int) plan.params.geti("call", 1);
                p.k = (long) plan.params.geti("k", 1);
                p.type = (int) plan.params.geti("type", 0);
                p.pair = plan.params.has("pair") && plan.params.at("pair").as_bool();
                p.together = plan.params.has("together") && plan.params.at("together").as_bool();
                p.target2 = (int) plan.params.geti("target2", 0);
                p.call2 = (int) plan.params.geti("call2", 1);
                p.k2 = (long) plan.params.geti("k2", 1);
                positions.push_back(p);
            }
            else
            {
                Rng rp = stream(plan.run_seed, "fault");
                for (int t = 0; t < 2; t++)
                    for (int c = 0; c < 3; c++)
                    {
                        const long N = E.base.N[t][c];
                        if (N <= 0) continue;
                        long stride = 1, phase = 0;
                        if (N > cap)
                        {
                            stride = (N + cap - 1) / cap;
                            phase = (long) rp.below((uint64_t) stride);
                            exhaustive = false;
                        }
                        for (long k = 1 + phase; k <= N; k += stride)
                        {
                            Position p;
                            p.target = t;
                            p.call = c;
                            p.k = k;
                            p.type = (int) ((type0 + k) % 3);
                            positions.push_back(p);
                        }
                    }
                // RegularInverse mode: every A-application once more with a silently poisoned output, which makes the library's
                // own B-wrapper (SparseRegularInverse, conjugate gradients) fail and throw from real code
                if (spec.family == F_GREGINV)
                    for (int c = 0; c < 2; c++)
                    {
                        const long N = E.base.N[0][c];
                        const long stride = N > cap ? (N + cap - 1) / cap : 1;
                        for (long k = 1; k <= N; k += stride)
                        {
                            Position p;
                            p.target = 0;
                            p.call = c;
                            p.k = k;
                            p.type = FT_POISON;
                            positions.push_back(p);
                        }
                    }
                // sampled pairs
                const long npairs = plan.params.geti("pairs", 20);
                std::vector<std::pair<int, int>> sites;
                for (int t = 0; t < 2; t++)
                    for (int c = 0; c < 2; c++)
                        if (E.base.N[t][c] > 0) sites.push_back({t, c});
                for (long i = 0; i < npairs && !sites.empty(); i++)
                {
                    Position p;
                    auto s1 = sites[rp.below(sites.size())];
                    p.target = s1.first;
                    p.call = s1.second;
                    p.k = 1 + (long) rp.below((uint64_t) E.base.N[p.target][p.call]);
                    p.type = (int) rp.below(3);
                    p.pair = true;
                    p.together = (E.base.N[1][p.call] > 0) && rp.chance(0.5);
                    if (p.together)
                    {
                        p.target2 = 1 - p.target;
                        p.call2 = p.call;
                        if (E.base.N[p.target2][p.call2] <= 0) { p.together = false; }
                        else p.k2 = 1 + (long) rp.below((uint64_t) E.base.N[p.target2][p.call2]);
                    }
                    if (!p.together)
                    {
                        auto s2 = sites[rp.below(sites.size())];
                        p.target2 = s2.first;
                        p.call2 = s2.second;
                        p.k2 = 1 + (long) rp.below((uint64_t) E.base.N[p.target2][p.call2]);
                    }
                    positions.push_back(p);
                }
            }
            for (size_t i = 0; i < positions.size(); i++) positions[i].index = (long) i;
            // replay of damage that accumulated in the persistent solver: the enumeration up to and including that position
            if (!plan.params.has("k") && plan.params.has("prefix_upto"))
            {
                const size_t keep = (size_t) std::max<long>(0, (long) plan.params.geti("prefix_upto", 0)) + 1;
                if (positions.size() > keep) positions.resize(keep);
            }
            out.stats.add(exhaustive ? "worlds.exhaustive" : "worlds.strided");
            const int only_pass = (int) plan.params.geti("pass", -1);
            // pre-register every counter and reserve result storage: from here on the harness itself allocates
            // nothing unless a violation is recorded, so the per-position allocation balance must be exactly zero
            for (const char* t : {"A", "B"})
                for (const char* c : {"init", "compute", "eigenvectors"}) out.stats.add(std::string("fault.fired.") + t + "." + c, 0);
            out.stats.add("fault.not_fired", 0);
            out.stats.add("fault.poison_without_native_throw", 0);
            out.stats.add("fault.fired.native_B_solve", 0);
            out.stats.add("fault.fired.second_in_recovery", 0);
            out.stats.add("positions", 0);
            out.stats.add("alloc.balance_checked", 0);
            out.shapes.reserve(positions.size() + 16);
            auto balanced = [&](const Position& pos, int pass, size_t b0) {
                if (!have_alloc) return;
                const size_t b1 = __sanitizer_get_current_allocated_bytes();
                out.stats.add("alloc.balance_checked");
                if (b1 != b0)
                    E.violation("leak", pos, pass, "allocation balance after the faulted run and its recovery: " + std::to_string((long long) b1 - (long long) b0) + " bytes");
            };
            // pass 0: one solver object across all positions
            if (only_pass != 1)
            {
                Session P(spec);
                P.construct_solver();
                // warm-up: the solver's buffers reach their final size
                P.exec(E.op_init, 0);
                P.exec(E.op_comp, 1);
                for (auto& pos : positions)
                {
                    const size_t nv = out.viol.size();
                    const size_t b0 = have_alloc ? __sanitizer_get_current_allocated_bytes() : 0;
                    bool fired = E.run_position(P, pos, 0);
                    if (out.viol.size() == nv) balanced(pos, 0, b0);
                    if (fired)
                    {
                        Hasher h;
                        h.u64(spec.mseed); h.u64((uint64_t) spec.family); h.u64((uint64_t) pos.target); h.u64((uint64_t) pos.call); h.u64((uint64_t) pos.k);
                        h.u64(pos.pair ? (uint64_t) (pos.k2 * 4 + pos.target2 * 2 + (pos.together ? 1 : 0) + 7) : 0);
                        out.shapes.push_back(h.h);
                    }
                    if (out.viol.size() > nv + 4) out.viol.resize(nv + 4);
                    if (out.viol.size() > 40) break;
                }
                hh.u64(P.ctx.log.h);
            }
            // pass 1: fresh world per position
            if (only_pass != 0)
            {
                for (auto& pos : positions)
                {
                    const size_t nv = out.viol.size();
                    const size_t b0 = have_alloc ? __sanitizer_get_current_allocated_bytes() : 0;
                    {
                        Session F(spec);
                        F.construct_solver();
                        // the fresh-solver pass throws a different exception type at this k than the persistent-solver pass did,
                        // so every position meets two of the three types (polymorphic non-std, std::runtime_error subclass, int)
                        Position q = pos;
                        if (q.type != FT_POISON && !plan.params.has("k")) q.type = (pos.type + 1) % 3;
                        E.run_position(F, q, 1);
                        hh.u64(F.ctx.log.h);
                    }
                    if (out.viol.size() == nv) balanced(pos, 1, b0);
                    if (out.viol.size() > nv + 4) out.viol.resize(nv + 4);
                    if (out.viol.size() > 40) break;
                }
            }
            out.stats.add("positions", (long long) positions.size());
        }
    }
    out.event_hash = hh.h;
    out.shape_hash = hh.h;
    return out;
}

}  // namespace sim
