#include <cstdio>
#include "world/world.h"
#include "world/matgen.h"
using namespace sim;
int main()
{
    WorldSpec w;
    w.family = F_SYM; w.n = 30; w.nev = 3; w.ncv = 10;
    auto world = make_world(w);
    TaskCtx ctx;
    ctx.seam[0] = &world->ctlA;
    current_ctx() = &ctx;
    auto s = world->make_solver();
    s->init0();
    long r = s->compute(R_LA, 100, 1e-10L, R_LA);
    Snapshot sn;
    s->values(sn);
    s->vectors(sn, -1);
    std::printf("ret=%ld nops=%ld events=%ld applyA=%ld restarts=%ld lam0=%Lg hash=%llx\n", r, s->nops(), ctx.nevents, ctx.n_apply[0], ctx.n_checkpoint[CK_RESTART], sn.vals[0].real(), (unsigned long long) ctx.log.h);
    current_ctx() = nullptr;
    return 0;
}
