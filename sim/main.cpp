// sim: worker process of the deterministic simulator.
//   sim --prop <id> --seed S --runs N [--worker i --nworkers W] [--tier quick|thorough] [--seconds T]
//       [--shapes file] [--replay-dir dir] [--selfcheck K]      batch of seeded runs
//   sim --replay file [--verbose]                                re-execute one replay file
//   sim --print-plan --prop <id> --seed S --index i              show a generated plan
#include <unistd.h>
#include <chrono>
#include <cstdio>
#include <cstdlib>
#include <cstring>
#include <fstream>
#include <set>
#include <sstream>
#include "engine/gen.h"
#include "engine/run.h"
#include "engine/shrink.h"

using namespace sim;


static std::string arg(int argc, char** argv, const char* name, const char* dflt)
{
    for (int i = 1; i + 1 < argc; i++)
        if (!std::strcmp(argv[i], name)) return argv[i + 1];
    return dflt;
}
static bool flag(int argc, char** argv, const char* name)
{
    for (int i = 1; i < argc; i++)
        if (!std::strcmp(argv[i], name)) return true;
    return false;
}

static Json viol_json(const Violation& v)
{
    Json j = Json::object();
    j.set("prop", v.prop).set("clause", v.clause).set("op_index", v.op_index).set("pair", v.pair).set("ratio", (double) v.ratio).set("detail", v.detail);
    return j;
}

// structural features of a (minimised) plan: what known-finding signatures are matched against
static Json features(const Plan& p, const RunOutput& out, const std::string& cls)
{
    Json f = Json::object();
    f.set("class", cls);
    const TaskSpec& t = p.tasks.at(0);
    f.set("family", family_name(t.w.family)).set("scalar", scalar_name(t.w.scalar)).set("mclass", mclass_name(t.w.mclass));
    f.set("scale_log10", std::log10(t.w.scale)).set("n", t.w.n).set("nev", t.w.nev).set("ncv", t.w.ncv);
    std::string pat;
    int failing_op = -1;
    for (auto& v : out.viol)
        if (v.cls() == cls)
        {
            failing_op = v.op_index;
            f.set("min_beta_rel", v.min_beta_rel).set("expands", v.expands).set("restarts_since_init", v.restarts).set("ratio", (double) v.ratio);
            break;
        }
    for (size_t i = 0; i < t.script.size(); i++)
    {
        if (i) pat += ",";
        pat += opkind_name(t.script[i].kind);
        if (t.script[i].kind == OP_INITV) pat += "[" + std::to_string(t.script[i].vclass) + "]";
        if (!t.script[i].faults.empty()) pat += "!";
    }
    // start vector class in force at the failing op
    int vcls = -1;
    for (int i = 0; i <= failing_op && i < (int) t.script.size(); i++)
    {
        if (t.script[(size_t) i].kind == OP_INIT0) vcls = -1;
        if (t.script[(size_t) i].kind == OP_INITV) vcls = t.script[(size_t) i].vclass;
    }
    f.set("start_vector_class", vcls);
    f.set("pattern", pat).set("failing_op", failing_op).set("tasks", (long) p.tasks.size());
    if (failing_op >= 0 && failing_op < (int) t.script.size())
    {
        const Op& o = t.script[(size_t) failing_op];
        f.set("failing_maxit", o.maxit).set("failing_tol", o.tol).set("failing_sel", rule_name(o.sel)).set("failing_sort", rule_name(o.sort));
    }
    return f;
}

static std::string write_replay(const std::string& dir, const Plan& p, const RunOutput& out, const std::string& cls, const std::string& tag)
{
    Json j = p.to_json();
    Json e = Json::object();
    e.set("class", cls).set("event_hash", (unsigned long long) out.event_hash);
    j.set("expect", e);
    Json vs = Json::array();
    for (auto& v : out.viol) vs.push(viol_json(v));
    j.set("violations", vs);
    j.set("features", features(p, out, cls));
    std::string path = dir + "/" + p.prop + "-" + tag + ".json";
    std::ofstream f(path);
    f << j.dump() << "\n";
    return path;
}

static int do_replay(const std::string& path, bool verbose, bool observe)
{
    std::ifstream f(path);
    if (!f) { std::fprintf(stderr, "cannot open %s\n", path.c_str()); return 2; }
    std::stringstream ss;
    ss << f.rdbuf();
    Json j = Json::parse(ss.str());
    Plan p = Plan::from_json(j);
    RunOpts o;
    o.verbose = verbose;
    o.observe_krylov = observe;
    RunOutput out = run_plan(p, o);
    if (!out.engine_error.empty()) { std::printf("ENGINE-ERROR %s\n", out.engine_error.c_str()); return 2; }
    std::string want = j.has("expect") ? j.at("expect").gets("class", "") : "";
    for (auto& v : out.viol) std::printf("violation class=%s op=%d pair=%ld ratio=%.3g :: %s\n", v.cls().c_str(), v.op_index, v.pair, (double) v.ratio, v.detail.c_str());
    std::printf("event_hash=%llu violations=%zu\n", (unsigned long long) out.event_hash, out.viol.size());
    if (verbose) std::printf("stats=%s\n", out.stats.to_json().dump().c_str());
    if (!want.empty())
    {
        const bool rep = out.has_class(want);
        const bool same_hash = !j.at("expect").has("event_hash") || j.at("expect").at("event_hash").as_u64() == out.event_hash;
        std::printf("%s class=%s hash_match=%d\n", rep ? "REPRODUCED" : "NOT-REPRODUCED", want.c_str(), (int) same_hash);
        return rep ? 1 : 3;
    }
    return out.viol.empty() ? 0 : 1;
}

static int real_main(int argc, char** argv);
int main(int argc, char** argv)
{
    // leave through _exit: the sanitizer runtimes otherwise replace the exit status when they have reported something
    const int rc = real_main(argc, argv);
    std::fflush(stdout);
    std::fflush(stderr);
    _exit(rc);
}

static int real_main(int argc, char** argv)
{
    std::setvbuf(stdout, nullptr, _IOLBF, 1 << 16);
    if (flag(argc, argv, "--replay") || !arg(argc, argv, "--replay", "").empty())
        return do_replay(arg(argc, argv, "--replay", ""), flag(argc, argv, "--verbose"), flag(argc, argv, "--observe-krylov"));
    const std::string prop = arg(argc, argv, "--prop", "C01");
    const uint64_t seed = std::strtoull(arg(argc, argv, "--seed", "1").c_str(), nullptr, 10);
    const long runs = std::atol(arg(argc, argv, "--runs", "100").c_str());
    const long worker = std::atol(arg(argc, argv, "--worker", "0").c_str());
    const long nworkers = std::atol(arg(argc, argv, "--nworkers", "1").c_str());
    const double seconds = std::atof(arg(argc, argv, "--seconds", "0").c_str());
    const long selfcheck = std::atol(arg(argc, argv, "--selfcheck", "0").c_str());  // every K-th run is executed twice
    const std::string shapes_path = arg(argc, argv, "--shapes", "");
    const std::string replay_dir = arg(argc, argv, "--replay-dir", "replays");
    const std::string hashes_path = arg(argc, argv, "--hashes", "");  // determinism proof: run index + event hash
    GenOpts go;
    go.thorough = arg(argc, argv, "--tier", "quick") == "thorough";
    go.force_family = std::atoi(arg(argc, argv, "--family", "-1").c_str());
    go.no_faults = flag(argc, argv, "--no-faults");
    go.no_edge_preemption = flag(argc, argv, "--no-edge-preemption");
    go.single_shot = flag(argc, argv, "--single-shot");
    const bool no_regime_skip = flag(argc, argv, "--no-regime-skip");
    const int force_vclass = std::atoi(arg(argc, argv, "--vclass", "-1").c_str());
    const int force_mclass = std::atoi(arg(argc, argv, "--mclass", "-1").c_str());
    if (flag(argc, argv, "--calibrate")) set_calibrating(true);
    const bool no_shrink = flag(argc, argv, "--no-shrink");
    RunOpts ro;
    ro.observe_krylov = flag(argc, argv, "--observe-krylov");

    if (flag(argc, argv, "--print-plan"))
    {
        const long idx = std::atol(arg(argc, argv, "--index", "0").c_str());
        Plan p = gen_plan_for(prop, run_seed_of(seed, (uint64_t) idx), go);
        std::printf("%s\n", p.to_json().dump().c_str());
        return 0;
    }

    const auto t0 = std::chrono::steady_clock::now();
    RunStats total;
    std::set<uint64_t> shapes;
    std::ofstream hashes;
    if (!hashes_path.empty()) hashes.open(hashes_path);
    long executed = 0, nviol = 0, nontrivial = 0, engine_errors = 0, evaluations = 0;
    Json samples = Json::array();
    const long max_reports = std::atol(arg(argc, argv, "--max-reports", "6").c_str());
    bool stopped_early = false;
    for (long idx = worker; idx < runs; idx += nworkers)
    {
        if (nviol >= max_reports)
        {
            // a failing batch does not need every failing run: stop once enough violations are minimised and reported
            stopped_early = true;
            break;
        }
        if (seconds > 0 && std::chrono::duration<double>(std::chrono::steady_clock::now() - t0).count() > seconds) break;
        const uint64_t rs = run_seed_of(seed, (uint64_t) idx);
        go.index = idx;
        Plan p = gen_plan_for(prop, rs, go);
        // survey switches (never used by the registered checks): force input classes outside the default workload
        if (no_regime_skip) p.params.set("no_regime_skip", true);
        if (force_vclass >= 0)
            for (auto& t : p.tasks)
                for (auto& o : t.script)
                    if (o.kind == OP_INITV || o.kind == OP_INIT0) { o.kind = OP_INITV; o.vclass = force_vclass; if (!o.vseed) o.vseed = rs; }
        if (force_mclass >= 0)
            for (auto& t : p.tasks) { t.w.mclass = force_mclass; if (force_mclass == M_LOWRANK && t.w.rank < 1) t.w.rank = 1 + (int) (rs % (uint64_t) std::max(1, t.w.ncv - 1)); }
        RunOutput out = run_plan(p, ro);
        executed++;
        evaluations += out.evaluations;
        if (!out.engine_error.empty())
        {
            engine_errors++;
            std::printf("{\"type\":\"engine_error\",\"index\":%ld,\"msg\":\"%s\"}\n", idx, out.engine_error.c_str());
            continue;
        }
        if (const char* thr = std::getenv("SIM_REPORT_RATIO"))
            for (auto& kv : out.stats.mx)
                if (kv.first.compare(0, 6, "ratio.") == 0 && kv.first.find("tolterm") == std::string::npos && kv.second > std::atof(thr))
                    std::printf("{\"type\":\"bigratio\",\"index\":%ld,\"key\":\"%s\",\"value\":%.3g,\"plan\":%s}\n", idx, kv.first.c_str(), kv.second, p.to_json().dump().c_str());
        total.merge(out.stats);
        if (out.nontrivial)
        {
            nontrivial++;
            if (out.shapes.empty()) shapes.insert(out.shape_hash);
            for (uint64_t h : out.shapes) shapes.insert(h);
        }
        if (hashes.is_open()) hashes << idx << " " << out.event_hash << "\n";
        if (samples.a.size() < 3 && out.nontrivial && idx % 7 == worker % 7) samples.push(p.to_json());
        if (selfcheck > 0 && (idx / nworkers) % selfcheck == 0)
        {
            RunOutput again = run_plan(p, ro);
            // (a data race on once-only state cannot recur in the same process: that class is excluded from the comparison)
            auto recurring = [](const RunOutput& r) {
                size_t k = 0;
                for (auto& v : r.viol) k += (v.cls() != "C20:data-race");
                return k;
            };
            if (again.event_hash != out.event_hash || recurring(again) != recurring(out))
            {
                engine_errors++;
                std::printf("{\"type\":\"engine_error\",\"index\":%ld,\"msg\":\"nondeterministic re-execution (hash %llu vs %llu)\"}\n", idx,
                            (unsigned long long) out.event_hash, (unsigned long long) again.event_hash);
                continue;
            }
            total.add("selfcheck.reexecuted");
        }
        if (!out.viol.empty())
        {
            // one report per violation class of this run
            std::set<std::string> classes;
            for (auto& v : out.viol) classes.insert(v.cls());
            for (auto& cls : classes)
            {
                // gate (i): the same seed re-executed in this process gives the same hash and class.
                // A data race on once-only state (racy lazy initialisation) cannot recur in the same process: for
                // that class the confirmation is the fresh-process replay done by the driver, and nothing is shrunk
                bool once_only = (cls == "C20:data-race");
                RunOutput again = once_only ? out : run_plan(p, ro);
                if (again.event_hash != out.event_hash || !again.has_class(cls))
                {
                    // C20: hidden process-global state (a lazily filled cache, a static buffer that has grown) is exactly what
                    // the property forbids, and it makes a divergence unrepeatable inside the process that already ran it:
                    // the candidate is written out unshrunk and the driver's fresh-process replay alone decides
                    if (p.mode == "sched") once_only = true;
                    else
                    {
                        engine_errors++;
                        std::printf("{\"type\":\"engine_error\",\"index\":%ld,\"msg\":\"violation %s did not reproduce in-process\"}\n", idx, cls.c_str());
                        continue;
                    }
                }
                int used = 0;
                Plan failing = p;
                if (!out.executed_schedule.empty())
                {
                    failing.explicit_schedule = true;
                    failing.schedule = out.executed_schedule;
                    failing.gaps = out.executed_gaps;
                }
                for (auto& v : out.viol)
                    if (v.cls() == cls && v.params.type == Json::Obj && !v.params.o.empty())
                    {
                        for (auto& kv : v.params.o) failing.params.set(kv.first, kv.second);
                        break;
                    }
                Plan small = (no_shrink || nviol >= 2 || once_only) ? failing : shrink_plan(failing, cls, ro, 200, &used);
                // what is verified is what the replay file will contain: the plan after a JSON round trip
                auto roundtrip = [](const Plan& q) { return Plan::from_json(Json::parse(q.to_json().dump())); };
                small = roundtrip(small);
                RunOutput sout = once_only ? out : run_plan(small, ro);
                if (!sout.has_class(cls)) { small = roundtrip(failing); sout = run_plan(small, ro); }
                if (!sout.has_class(cls) && p.mode == "fault" && failing.params.has("pos_index") && failing.params.geti("pass", 0) == 0)
                {
                    // C14, persistent-solver pass: the damage accumulated over earlier positions - replay the enumeration up to here
                    Plan q = p;
                    q.params.set("prefix_upto", (long) failing.params.geti("pos_index", 0)).set("pass", 0);
                    small = roundtrip(q);
                    sout = run_plan(small, ro);
                }
                if (!sout.has_class(cls))
                {
                    engine_errors++;
                    std::printf("{\"type\":\"engine_error\",\"index\":%ld,\"msg\":\"violation %s is lost by the replay-file round trip\"}\n", idx, cls.c_str());
                    continue;
                }
                char tag[64];
                std::snprintf(tag, sizeof tag, "%llu-%ld-%zx", (unsigned long long) seed, idx, std::hash<std::string>()(cls) & 0xffff);
                std::string path = write_replay(replay_dir, small, sout, cls, tag);
                nviol++;
                Json line = Json::object();
                line.set("type", "violation").set("prop", cls.substr(0, cls.find(':'))).set("class", cls).set("index", idx).set("run_seed", (unsigned long long) rs);
                line.set("replay", path).set("shrink_runs", used).set("features", features(small, sout, cls));
                for (auto& v : sout.viol)
                    if (v.cls() == cls) { line.set("detail", v.detail); break; }
                std::printf("%s\n", line.dump().c_str());
            }
        }
    }
    if (!shapes_path.empty())
    {
        std::ofstream sf(shapes_path, std::ios::binary);
        for (uint64_t h : shapes) sf.write((const char*) &h, 8);
    }
    Json sum = Json::object();
    sum.set("type", "summary").set("prop", prop).set("worker", worker).set("executed", executed).set("evaluations", evaluations).set("nontrivial", nontrivial);
    sum.set("stopped_early", stopped_early).set("distinct_shapes", (long) shapes.size()).set("violations", nviol).set("engine_errors", engine_errors);
    sum.set("wall_s", std::chrono::duration<double>(std::chrono::steady_clock::now() - t0).count());
    sum.set("stats", total.to_json()).set("samples", samples);
    std::printf("%s\n", sum.dump().c_str());
    return engine_errors ? 2 : (nviol ? 1 : 0);
}
